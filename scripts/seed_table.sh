#!/bin/bash
# seed_table.sh [tier] [glob]: apply every seeded change matching the glob in turn, run the property's own check, print one line per seed.
TIER="${1:-quick}"; GLOB="${2:-*}"
cd /verif
for s in seeded/$GLOB/; do
  [ -f "$s/patch.diff" ] || continue
  n=$(basename $s); id=${n:0:3}
  line=$(scripts/try_seed.sh /verif/$s/patch.diff $TIER $id 2>&1 | head -1)
  rc=$(echo "$line" | sed -n 's/.*rc=\([0-9]*\)\].*/\1/p')
  nv=$(echo "$line" | sed -n 's/.*\] \([0-9]*\) VIOLATION.*/\1/p')
  echo -e "$n\t$id\t$TIER\trc=$rc\tviolations=$nv"
done
