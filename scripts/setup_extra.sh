#!/bin/bash
# extra pre-builds (race build, reference drivers); filled in as checks need them
exit 0
