#!/bin/bash
# builds the reference drivers whose toolchains are present (Java: Maven oracle; Rust: semver crate oracle)
ROOT="$(cd "$(dirname "${BASH_SOURCE[0]}")/.." && pwd)"
mkdir -p "$ROOT/.cache/java" "$ROOT/.cache/rust"
if command -v javac >/dev/null && [ -f /usr/share/maven/lib/maven-artifact-3.x.jar ]; then
  if [ ! -f "$ROOT/.cache/java/MavenOracle.class" ] || [ "$ROOT/oracle/java/MavenOracle.java" -nt "$ROOT/.cache/java/MavenOracle.class" ]; then
    javac -cp /usr/share/maven/lib/maven-artifact-3.x.jar -d "$ROOT/.cache/java" "$ROOT/oracle/java/MavenOracle.java" || echo "note: Maven oracle not built"
  fi
  if [ -f /usr/share/maven/lib/maven-model-builder-3.x.jar ]; then
    if [ ! -f "$ROOT/.cache/java/PomOracle.class" ] || [ "$ROOT/oracle/java/PomOracle.java" -nt "$ROOT/.cache/java/PomOracle.class" ]; then
      javac -nowarn -cp "$(ls /usr/share/maven/lib/*.jar | tr '\n' ':')" -d "$ROOT/.cache/java" "$ROOT/oracle/java/PomOracle.java" 2>/dev/null || echo "note: POM oracle not built"
    fi
  fi
fi
if command -v cargo >/dev/null; then
  if [ ! -x "$ROOT/.cache/rust/release/semver_oracle" ]; then
    ( cd "$ROOT/oracle/rust" && CARGO_NET_OFFLINE=true CARGO_TARGET_DIR="$ROOT/.cache/rust" cargo build --offline --release >/dev/null 2>&1 ) || echo "note: Rust semver oracle not built"
  fi
fi
exit 0
