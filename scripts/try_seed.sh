#!/bin/bash
# try_seed.sh <patch.diff> <tier> <ID>... : apply a seeded change to /repo, run the checks, undo it.
P="$1"; TIER="$2"; shift 2
cd /repo || exit 2
if [ -n "$(git status --porcelain --untracked-files=no)" ]; then echo "repo not clean"; exit 2; fi
git apply "$P" 2>/dev/null || git apply --3way "$P" 2>/dev/null || { echo "PATCH DOES NOT APPLY: $P"; git checkout -- . ; exit 3; }
git reset -q 2>/dev/null
cd /verif
for id in "$@"; do
  out=$(./check $id $TIER 2>&1); rc=$?
  echo "[$id rc=$rc] $(echo "$out" | grep -c '^VIOLATION') VIOLATION lines; $(echo "$out" | grep -E 'violation:|HARNESS' | head -2 | tr '\n' ' ' | cut -c1-300)"
done
git -C /repo checkout -- . ; git -C /repo status --porcelain --untracked-files=no
