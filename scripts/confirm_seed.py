#!/usr/bin/env python3
"""confirm_seed.py <src_dir> <dest_name>: confirm a seeded change in a scratch worktree of /repo HEAD and,
if everything holds (suite passes with the patch; demo passes without and fails with it), keep it as
/verif/seeded/<dest_name>/ with meta.json extended by what was run."""
import json, os, re, subprocess, sys, shutil
src, dest = sys.argv[1], sys.argv[2]
ENV = dict(os.environ, GOFLAGS="-mod=mod", GOPROXY="off", GOSUMDB="off", GOTOOLCHAIN="local", GOCACHE="/verif/.cache/gocache")
WT = "/tmp/confirm_wt_%d" % os.getpid()
def sh(cmd, cwd=None, timeout=900):
    r = subprocess.run(cmd, shell=True, cwd=cwd, env=ENV, capture_output=True, text=True, timeout=timeout)
    return r.returncode, r.stdout + r.stderr
def done(ok, msg):
    sh("git -C /repo worktree remove --force %s" % WT)
    print(("CONFIRMED " if ok else "REJECTED ") + dest + ": " + msg)
    sys.exit(0 if ok else 1)
meta = {}
mp = os.path.join(src, "meta.json")
if os.path.exists(mp):
    try: meta = json.load(open(mp))
    except Exception as e: meta = {"raw_meta_unparsable": str(e)}
demo = open(os.path.join(src, "demo_test.go")).read()
tests = re.findall(r"^func (Test\w+)\(", demo, re.M)
pkg = re.search(r"^package (\w+)", demo, re.M).group(1).replace("_test", "")
cands = re.findall(r"util/[A-Za-z0-9_/]+", json.dumps(meta.get("demo", ""))) 
rc, out = sh("git -C /repo worktree add -q --detach %s HEAD" % WT)
if rc: done(False, "worktree: " + out)
pkgdir = None
for c in cands:
    c = c.rstrip("/")
    while c and not os.path.isdir(os.path.join(WT, c)): c = os.path.dirname(c)
    if c and os.path.isdir(os.path.join(WT, c)) and os.path.basename(c) == pkg: pkgdir = c; break
if not pkgdir:
    for c in ["util/semver", "util/pypi", "util/maven", "util/resolve", "util/resolve/npm", "util/resolve/maven", "util/resolve/pypi", "util/resolve/schema", "util/resolve/dep", "util/resolve/version", "api/v3", "api/v3alpha"]:
        if os.path.basename(c) == pkg and (not cands or c in cands): pkgdir = c; break
if not pkgdir: done(False, "cannot find demo package dir for package %s (cands %s)" % (pkg, cands))
run = "%s-run '^(%s)$'" % ((("-tags %s " % os.environ["SEED_TAGS"]) if os.environ.get("SEED_TAGS") else "") + ("-race " if os.environ.get("SEED_RACE") else ""), "|".join(tests))
shutil.copy(os.path.join(src, "demo_test.go"), os.path.join(WT, pkgdir, "zz_seed_demo_test.go"))
rc0, out0 = sh("go test -vet=off -count=1 %s ." % run, cwd=os.path.join(WT, pkgdir))
if rc0 != 0: done(False, "demo does not pass on the unmodified tree:\n" + out0[-1500:])
rc, out = sh("git apply --3way %s" % os.path.abspath(os.path.join(src, "patch.diff")), cwd=WT)
if rc: done(False, "patch does not apply to HEAD: " + out[-500:])
rc1, out1 = sh("go test -vet=off -count=1 %s ." % run, cwd=os.path.join(WT, pkgdir))
if rc1 == 0: done(False, "demo passes WITH the patch")
os.remove(os.path.join(WT, pkgdir, "zz_seed_demo_test.go"))
suite = []
for m in ["api/v3", "api/v3alpha", "util/maven", "util/pypi", "util/resolve", "util/semver"]:
    rc, out = sh("go test -vet=off -count=1 ./...", cwd=os.path.join(WT, m))
    suite.append((m, rc))
    if rc: done(False, "suite fails in %s with the patch:\n%s" % (m, out[-1500:]))
rc, diff = sh("git diff HEAD -- . ':!*.sum'", cwd=WT)
d = os.path.join("/verif/seeded", dest)
os.makedirs(d, exist_ok=True)
open(os.path.join(d, "patch.diff"), "w").write(diff)
shutil.copy(os.path.join(src, "demo_test.go"), os.path.join(d, "demo_test.go"))
meta["breaks_property"] = meta.get("property", dest[:3])
meta["demo_package_dir"] = pkgdir
meta["demo_tests"] = tests
meta["confirmed"] = {
  "repo_head": subprocess.run("git -C /repo rev-parse --short HEAD", shell=True, capture_output=True, text=True).stdout.strip(),
  "what_i_ran": "scratch worktree of /repo HEAD; `go test -vet=off -count=1 %s .` in %s: PASS without patch, FAIL with patch; full suite (go test ./... in each of the six modules) with the patch: all ok" % (run, pkgdir),
  "demo_fail_excerpt": out1[-600:],
}
json.dump(meta, open(os.path.join(d, "meta.json"), "w"), indent=1)
done(True, "suite ok with patch; demo passes without / fails with")
