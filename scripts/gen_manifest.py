#!/usr/bin/env python3
"""Regenerates MANIFEST.json from the table below (single source of truth)."""
import json, os
ROOT = os.path.dirname(os.path.dirname(os.path.abspath(__file__)))
BASE = json.load(open('/root/.vp/BASELINE.json'))

CHECKS = {
 "C01": dict(engine="E1", technique="bounded-exhaustive enumeration of version-grammar products; all pairs by real Compare calls, all triples decided on the comparison matrix by a ranking certificate",
   text="Every pair of a 500-33 600 element grammar-product domain per system is compared on the real code, twice in different orders with fresh parses; reflexivity, antisymmetry, transitivity and congruence are decided for every triple of the domain (sound and complete O(n^2) ranking certificate); sorting is checked on every permutation of every <=5-subset of a 12-element sub-domain. Exhaustive within the stated alphabets, silent about versions outside them.",
   note="Trusted: the harness's matrix/certificate code and the domain generators; Maven is restricted to the DESIGN 6.4 dash-form domain as the property states.", ref="5 C01, 6.1-6.4"),
 "C02": dict(engine="E1", technique="bounded-exhaustive enumeration: every pair of each ecosystem's version-grammar product compared by the real Compare and by the ecosystem's own implementation (committed reference table, regenerated live and required identical in the thorough tier)",
   text="Per ecosystem (npm, PyPI, Cargo, Go, Maven, RubyGems, NuGet) every pair of the 700-2 100 string domain that both sides accept (11.9 M pairs quick) is ordered by semver.Compare and by the reference (node-semver 7.6.2, packaging 26.3 with 21.3 as drift detector, semver crate 1.0.28, x/mod/semver, Maven 3.8.7 ComparableVersion; transcribed Gem::Version and NuGet algorithms); every reference-normalised spelling must parse. Exhaustive over the stated alphabets only.",
   note="Trusted: the reference tools and the two transcriptions; pairs on which the two packaging releases differ are undecided; npm numbers above 2^53 are outside the reference's exact domain. Three known findings suppressed by exact witness.", ref="5 C02, 6.1-6.4"),
 "C03": dict(engine="E1", technique="bounded-exhaustive enumeration of (requirement, candidate) pairs from range-grammar products; ParseConstraint+Match and resolve.MatchRequirement executed and compared with the ecosystem's own matcher (committed reference table, live in thorough)",
   text="For npm, Cargo, PyPI and Maven every requirement of the grammar product (operator x operand atoms, AND/OR compounds over colliding atoms, hyphen ranges, three-way ORs, Maven range unions: 1 300-8 700 requirements) is matched against every boundary-neighbour candidate (1.4 M pairs quick) through both library entry points and compared with node-semver satisfies, semver crate VersionReq, packaging SpecifierSet and Maven VersionRange. Exhaustive over the stated alphabets.",
   note="Trusted: reference tools, candidate-pool derivation. Requirements only one side accepts are reported when the reference accepts a satisfiable requirement the library rejects. Four known findings suppressed by exact witness (one is pinned by the repository's own test).", ref="5 C03, 6.5"),
 "C04": dict(engine="E1", technique="bounded-exhaustive enumeration of byte strings and token sequences over per-grammar token alphabets, plus deterministic stress families, executed on every text-consuming entry point in watchdog-supervised subprocesses (termination/no-crash oracle)",
   text="All byte strings up to length 2 and all token sequences up to the tier's length over nine token alphabets (versions, constraints, PEP 508, markers, POM fragments, property tables, schema text) - 2.1 M inputs, 27 M calls in quick - are fed to every parser, to the Maven project pipeline and, carried as requirement/marker/exclusion text, to the three resolvers; each call must return (error or value) without panic, fatal error, stack exhaustion (256 MB cap) or exceeding a 20 s watchdog. Stress families cover 10^4-10^5 repetitions and nesting.",
   note="Decides termination only up to the watchdog: a call slower than 20 s is reported as a hang, polynomially slow inputs below it are not. Inputs outside the alphabets/lengths are not covered.", ref="5 C04"),
 "C05": dict(engine="E1+E3", technique="bounded-exhaustive enumeration of universes and call histories on shared client/resolver instances, plus stateless model checking of the real resolvers under a cooperative controlled scheduler with iterative preemption bounding (all interleavings of 2 threads up to the bound at client-call granularity)",
   text="For every universe within the deviation bound from the npm/Maven/PyPI bases (6 378 universes quick) each root is resolved on a fresh client (reference) and again inside every ordered pair/triple history, on a second resolver, under every adjacent transposition of insertion order, with a byte-exact snapshot of everything the client reports before and after each Resolve; then all schedules with <= 1 (quick) / 2 (thorough) preemptions of two goroutines resolving on one shared client are executed on the real code (265 k schedules quick); every outcome must equal the sequential reference and no schedule may deadlock.",
   note="Scheduling points are client calls and vsync mutex operations, not individual memory accesses: data races between points are outside what the scheduler sees (a free-running -race pass is listed as future work in DESIGN). Scenarios whose default schedule exceeds 150 points run that schedule only and are counted in the evidence.", ref="5 C05, 6.6, 8"),
 "C06": dict(engine="E1", technique="bounded-exhaustive enumeration of npm universes (deviation-bounded from two bases) x all roots; the real resolver's graph and its internal install tree (verif hook) checked against invariants computed from the harness's own universe model",
   text="138 922 universes / 412 044 resolutions in quick: every set of <= 3 deviations (<= 2 on the diamond-conflict template) over requirement slots (7 requirement texts incl. dist-tags, x-ranges, prerelease ranges) and decorations (optional/dev/peer/bundled, aliases, deprecated, latest tag); per resolution: every edge satisfies its requirement, every non-dev non-peer requirement is an edge or a recorded error, reachability, fresh-install choice, and on the install tree: unique names per directory and Node's walk-up lookup reaches the edge's target.",
   note="Trusted: the hand satisfaction table for the 7 requirement texts x 4 versions and the tree walk-up model. Install tree is read through the verif-tagged hook (commit ce712c8).", ref="5 C06, 6.6(a)"),
 "C07": dict(engine="E1", technique="bounded-exhaustive enumeration of Maven universes (deviation-bounded from three bases, plus focused exclusion/scope/type families) x all roots; real resolver output checked against invariants from the harness's universe model",
   text="18 074 universes / 82 951 resolutions in quick over soft and ranged requirements, scopes, optional, exclusions incl. wildcards, classifiers, types and root dependency management: one version per artifact key, range edges inside their range, nearest-wins for soft declarations (judged where no range on the artifact exists), managed version overrides, excluded artifacts unreachable on that path, test/optional/provided only from the root, every followed declaration is an edge or a node error, reachability.",
   note="Trusted: the breadth-first reference walk in the harness (70 lines) and the hand range table.", ref="5 C07, 6.6(b)"),
 "C08": dict(engine="E1", technique="bounded-exhaustive enumeration of PyPI universes (deviation-bounded from three bases incl. a backtracking-conflict and an extras template, plus focused marker/extras and specifier families) x all roots; real resolver output checked against invariants from the harness's universe model",
   text="30 379 universes / 166 121 resolutions in quick: for every graph returned without a graph-level error: one version per package, root kept, every requirement whose marker is true (for the fixed environment and the extras requested in the graph) is an edge to a version satisfying the specifier under pip's prerelease rule, false markers contribute no edge, no edge without a requirement, reachability.",
   note="Trusted: hand specifier table and marker truth table of the alphabets. Two known findings (extras requested after a pin; stale extras after re-pin) are suppressed by exact witness lists (1 447 + 63 witnesses across both tiers).", ref="5 C08, 6.6(c)"),
 "C12": dict(engine="E1", technique="bounded-exhaustive enumeration of record subsets x all permutations x requirement alphabet; resolve.MatchRequirement and LocalClient.MatchingVersions executed and compared with a hand table in reference order",
   text="Per system (npm, Maven, PyPI) every subset of <= 4 (quick) / 5 (thorough) records of a 9-11 record alphabet (equal-precedence spellings, prereleases, dist-tags, unparsable strings) in every permutation x 10-16 requirements (581 k evaluations quick): both entry points must return exactly the expected matches in ecosystem order regardless of insertion order.",
   note="Trusted: the hand match table. PyPI prerelease records on which packaging 21.3 and 26.3 differ are excluded.", ref="5 C12"),
 "C15": dict(engine="E1", technique="bounded-exhaustive enumeration of POM lineages (deviation-bounded from four family bases) run through the real decode/MergeProfiles/MergeParent/Interpolate/ProcessDependencies pipeline and compared with Maven's own DefaultModelBuilder on the same files (committed reference table, live in thorough); exhaustive enumeration of property tables for interpolation termination in supervised subprocesses",
   text="5 459 lineages in quick (<= 2 deviations; 99 000 with <= 3 in thorough) over four families - property precedence across project/ancestors/active and inactive profiles with chained and built-in expressions in every dependency field; dependency-management injection by key with imports at every level (nested, sibling, parented, property-versioned, profile-declared BOMs); profile activation by default, JDK value/negation/range and OS family/name/arch/version and what active profiles contribute; import merge order - are rendered as pom.xml files and the effective dependencies and managed dependencies (all eight fields, in order) compared with Maven 3.8.7 under JDK 11.0.8/linux/amd64. Every property table over 3 (4) keys x 13 values x 15 query strings (33 k / 428 k interpolations) must terminate and equal the substitution model (cyclic: unresolved with the placeholder left).",
   note="Trusted: Maven 3.8.7's model builder at validation level MINIMAL and the 40-line normal form. Lineages Maven rejects are not compared; several managed declarations of one key inside one file are outside the domain. Four known findings suppressed by exact witness (425 witnesses across tiers), each explained by a triage normaliser (DESIGN 9).", ref="5 C15"),
 "C16": dict(engine="E1", technique="bounded-exhaustive enumeration of PEP 508 grammar products (requirement strings, names, marker expressions); pypi.ParseDependency/CanonPackageName executed directly and markers executed as dependency guards inside real PyPI resolutions, all compared with pip's packaging library (committed reference tables, live in thorough)",
   text="34 884 requirement strings in quick (1.13 M in thorough: name x extras x specifier list x marker x every separator/space position) must yield packaging's canonical name, extras set, specifier set and marker token sequence; all 2 334 (13 998) valid names over {a,B,1,-,_,.} up to length 5 (6) must normalise as canonicalize_name does, idempotently; 2 581 (4 065) marker expressions - every supported variable x every operator x literals around the environment's value in both operand orders, and/or/parenthesis compounds - are placed as guards in real resolutions and the guarded edge must be present exactly when packaging 26.3 evaluates the marker true in the library's fixed environment for requested extras none, x, y and x+y.",
   note="Trusted: packaging 26.3 (rows on which pip's vendored 21.3 differs, and markers packaging raises on, are not judged), pip's any-of rule for several extras, the marker tokeniser used to compare marker text. Four known findings suppressed by exact witness (85 witnesses).", ref="5 C16"),
 "C17": dict(engine="E1", technique="complete enumeration of every declaration of both API versions from embedded descriptors and from the .proto sources (own proto3 parser); simulation check v3 <= v3alpha and descriptor/source/generated-code agreement",
   text="All 6 576 declaration nodes (services, RPCs with HTTP bindings, messages, fields with number/type/cardinality/oneof, enums) of api/v3 and api/v3alpha are enumerated; every v3 node must exist identically in v3alpha (HTTP paths modulo version prefix), .proto text must equal the embedded descriptor in both directions incl. order, generated gRPC stubs and struct tags must equal the descriptor, resolve.System constants must equal the API enum.",
   note="Complete for the finite object it examines (not a bounded sample). Trusted: the 300-line proto3 parser.", ref="5 C17"),
 "C18": dict(engine="E1+E3", technique="bounded-exhaustive enumeration of fake-service contents with the real APIClient compared against the documented mapping loaded in a LocalClient, plus stateless model checking of two goroutines on one APIClient under the controlled scheduler (preemption-bounded, scheduling points at mutex operations and RPC boundaries)",
   text="15 334 service contents (<= 3 deviations over bundle positions, dependency kinds, aliases) in quick: Version/Versions/Requirements/MatchingVersions for every bundled and ordinary key and the npm resolution must equal the model's; then all schedules with <= 2 preemptions of two threads (808 k schedules over 698 scenarios) must give graphs equal to the sequential reference, show bundles atomically and never deadlock.",
   note="The fake Insights server is the harness's; gRPC transport is bypassed (direct InsightsClient implementation). Process-global cache pollution found by a long run is reported with the universe that exposed it, which may not reproduce it alone.", ref="5 C18, 8"),
 "C09": dict(engine="E1", technique="bounded-exhaustive enumeration: all ordered pairs of a constraint-grammar product, Union/Intersect executed on the real Set type, membership compared on all boundary-neighbour versions",
   text="For Default, NPM, Cargo and Go every ordered pair (A,B) of 100-1300 parsed constraints is combined with the real Union and Intersect (both operand orders, fresh parses); membership of every boundary-neighbour version of both operands is compared with A's and B's own under normal and prerelease-inclusive matching; Empty(), operand purity and alternative-order invariance are checked. Exhaustive over the stated constraint/version alphabets.",
   note="Trusted: boundary-version derivation (neighbours of every bound printed by Set.String) - a disagreement strictly between listed neighbours would be missed; prerelease-inclusive matching of result sets goes through ParseSetConstraint(String()). One known finding (adjacent-merge-prerelease-gap) is suppressed by exact witness.", ref="5 C09, 6.5"),
 "C10": dict(engine="E1", technique="bounded-exhaustive enumeration of version-grammar products; canonical form re-parsed and compared on the real code",
   text="Every string of the C01 domains (plus out-of-domain Maven shapes) that Parse accepts is canonicalised with and without build metadata; the canonical string must parse, compare equal, be a fixed point, and all same-canonical-string groups must be pairwise equal; pypi.CanonVersion is cross-checked. Exhaustive over the alphabets.",
   note="Trusted: domain generators. RubyGems prerelease versions excluded as the property states.", ref="5 C10"),
 "C11": dict(engine="E1", technique="bounded-exhaustive enumeration of constraint-grammar products; Set.String re-parsed with ParseSetConstraint and matched on the whole boundary-version pool",
   text="For Default, NPM, Cargo, Go and NuGet every constraint of the grammar product is printed as a set, re-parsed, re-printed and compared under prerelease-inclusive matching on every version of the system's boundary pool (150-360 versions incl. minimum and very large versions).",
   note="Trusted: domain generators and pool derivation.", ref="5 C11, 6.5"),
 "C13": dict(engine="E1", technique="bounded-exhaustive enumeration of rooted graphs x all renumberings x edge/error orders; Canon executed on real resolve.Graph values, one-outcome-per-orbit oracle",
   text="All rooted graphs within stated node/edge/decoration bounds over a two-label alphabet (root included, so duplicates of the root occur) are presented to the real Canon under every renumbering of non-root nodes, every edge permutation (<=4 edges; otherwise 3 orders) and error rotations; within an orbit all outcomes must coincide, Canon must be idempotent and preserve root, node multiset and edge multiset. A structured 13-16 node family exercises sort.Sort's large-slice path.",
   note="The property's random 40-node family is replaced by exhaustive families (DESIGN 7). Trusted: orbit generation and graph dump.", ref="5 C13, 6.9"),
 "C14": dict(engine="E2", technique="explicit-state breadth-first search to closure over AddVersion histories on a real LocalClient (replay-based successors), every observation compared with a map model in every state",
   text="For NPM, Maven and PyPI the reachable state space of LocalClient under an alphabet of 48-60 AddVersion operations (4-5 keys, attribute changes incl. latest/blocked/deleted, three requirement lists) is explored to closure (12 415 states, 595 920 transitions per system in quick); in every state Version, Versions, Requirements and MatchingVersions for every key, package and table requirement - and never-added ones - must agree with the model. Closure covers histories of every length.",
   note="State key is the exact stored order and contents, so states with different internal order are not merged. Trusted: the 60-line map model and the hand satisfaction table.", ref="5 C14"),
 "C19": dict(engine="E2+E1", technique="explicit-state BFS to closure over pairs of attribute sets under add/clone/reset on the real types, plus full product of single sets with ranking certificate and text round trips",
   text="Pairs (X,Y) of dep.Type and of version.AttrSet are explored to closure (16 384 and 4 096 pair states) with model comparison through every accessor, Equal/Compare vs model equality and a destructive aliasing probe in every state; then every single set of the key/value product (400-2 000 sets) is built in two insertion orders, Compare is certified a total order whose equality is content equality, and each set is written in the documented schema syntax and parsed back (deptest, versiontest, schema.New).",
   note="Values avoid the characters the schema line syntax reserves (| @ #). Two known findings in internal test helpers are suppressed by exact witness.", ref="5 C19"),
}
ALL = ["C%02d" % i for i in range(1, 20)]
NA_REASON = "check not built yet in this session (planned; see DESIGN.md section 5)"

def main():
    checks = []
    for pid in ALL:
        if pid not in CHECKS: continue
        c = CHECKS[pid]
        checks.append({
            "property_id": pid,
            "quick_cmd": "./check %s quick" % pid,
            "thorough_cmd": "./check %s thorough" % pid,
            "evidence_file": "/verif/evidence/%s.json" % pid,
            "replay_cmd_template": "./check %s --replay {path}" % pid,
            "engine": c["engine"],
            "level_claimed": {"category": "model_checking", "text": c["text"], "design_ref": c["ref"]},
            "level_note": c["note"],
            "technique": c["technique"],
        })
    m = {
     "version": 1,
     "setup_cmd": "./check --setup",
     "hooks": {
       "guard": "verif",
       "enable": "go build -tags verif -overlay /verif/.cache/overlay/overlay.json (overlay regenerated from /repo's current sources by harness/cmd/genoverlay on every check)",
       "baseline_off_cmd": BASE["cmd"],
       "source_commits": HOOK_COMMITS,
       "add_only": True,
     },
     "engines": [
       {"name": "E1", "path": "harness/props, harness/dom", "serves_properties": [p for p in ALL if p in CHECKS and "E1" in CHECKS[p]["engine"]], "kind_free_text": "bounded-exhaustive enumeration of grammar-product input domains on the real functions (matrix + ranking certificate for tuple laws)"},
       {"name": "E2", "path": "harness/bfs", "serves_properties": [p for p in ALL if p in CHECKS and "E2" in CHECKS[p]["engine"]], "kind_free_text": "explicit-state breadth-first search over operation histories on real objects, replay-based successors, canonical state keys"},
       {"name": "E3", "path": "harness/sched", "serves_properties": [p for p in ALL if p in CHECKS and "E3" in CHECKS[p]["engine"]], "kind_free_text": "cooperative controlled scheduler with iterative preemption bounding (stateless DFS over schedules of real goroutines)"},
     ],
     "checks": checks,
     "not_applicable": [{"property_id": p, "reason": NA.get(p, NA_REASON)} for p in ALL if p not in CHECKS],
     "notes": "All checks explore the implementation itself; see DESIGN.md. exit 2 + HARNESS-ERROR marks a failure of the machinery, never a finding.",
    }
    json.dump(m, open(os.path.join(ROOT, "MANIFEST.json"), "w"), indent=1)
    print("MANIFEST.json: %d checks, %d not_applicable" % (len(checks), len(m["not_applicable"])))

HOOK_COMMITS = ["ce712c8"]
NA = {}
if __name__ == "__main__":
    main()
