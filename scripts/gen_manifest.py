#!/usr/bin/env python3
"""Regenerates MANIFEST.json from the table below (single source of truth)."""
import json, os
ROOT = os.path.dirname(os.path.dirname(os.path.abspath(__file__)))
BASE = json.load(open('/root/.vp/BASELINE.json'))

CHECKS = {
 "C01": dict(engine="E1", technique="bounded-exhaustive enumeration of version-grammar products; all pairs by real Compare calls, all triples decided on the comparison matrix by a ranking certificate",
   text="Every pair of a 700-33 600 element grammar-product domain per system is compared on the real code, twice in different orders with fresh parses; reflexivity, antisymmetry, transitivity and congruence are decided for every triple of the domain (sound and complete O(n^2) ranking certificate); sorting is checked on every permutation of every <=5-subset of a 12-element sub-domain. Exhaustive within the stated alphabets, silent about versions outside them.",
   note="Trusted: the harness's matrix/certificate code (60 lines) and the domain generators; Maven is restricted to the DESIGN 6.4 dash-form domain as the property states.", ref="5 C01, 6.1-6.4"),
}
ALL = ["C%02d" % i for i in range(1, 20)]
NA_REASON = "check not built yet in this session (planned; see DESIGN.md section 5)"

def main():
    checks = []
    for pid in ALL:
        if pid not in CHECKS: continue
        c = CHECKS[pid]
        checks.append({
            "property_id": pid,
            "quick_cmd": "./check %s quick" % pid,
            "thorough_cmd": "./check %s thorough" % pid,
            "evidence_file": "/verif/evidence/%s.json" % pid,
            "replay_cmd_template": "./check %s --replay {path}" % pid,
            "engine": c["engine"],
            "level_claimed": {"category": "model_checking", "text": c["text"], "design_ref": c["ref"]},
            "level_note": c["note"],
            "technique": c["technique"],
        })
    m = {
     "version": 1,
     "setup_cmd": "./check --setup",
     "hooks": {
       "guard": "verif",
       "enable": "go build -tags verif -overlay /verif/.cache/overlay/overlay.json (overlay regenerated from /repo's current sources by harness/cmd/genoverlay on every check)",
       "baseline_off_cmd": BASE["cmd"],
       "source_commits": HOOK_COMMITS,
       "add_only": True,
     },
     "engines": [
       {"name": "E1", "path": "harness/props, harness/dom", "serves_properties": [p for p in ALL if p in CHECKS and "E1" in CHECKS[p]["engine"]], "kind_free_text": "bounded-exhaustive enumeration of grammar-product input domains on the real functions (matrix + ranking certificate for tuple laws)"},
       {"name": "E2", "path": "harness/bfs", "serves_properties": [p for p in ALL if p in CHECKS and "E2" in CHECKS[p]["engine"]], "kind_free_text": "explicit-state breadth-first search over operation histories on real objects, replay-based successors, canonical state keys"},
       {"name": "E3", "path": "harness/sched", "serves_properties": [p for p in ALL if p in CHECKS and "E3" in CHECKS[p]["engine"]], "kind_free_text": "cooperative controlled scheduler with iterative preemption bounding (stateless DFS over schedules of real goroutines)"},
     ],
     "checks": checks,
     "not_applicable": [{"property_id": p, "reason": NA.get(p, NA_REASON)} for p in ALL if p not in CHECKS],
     "notes": "All checks explore the implementation itself; see DESIGN.md. exit 2 + HARNESS-ERROR marks a failure of the machinery, never a finding.",
    }
    json.dump(m, open(os.path.join(ROOT, "MANIFEST.json"), "w"), indent=1)
    print("MANIFEST.json: %d checks, %d not_applicable" % (len(checks), len(m["not_applicable"])))

HOOK_COMMITS = []
NA = {}
if __name__ == "__main__":
    main()
