#!/usr/bin/env python3
"""Regenerates MANIFEST.json from the table below (single source of truth)."""
import json, os
ROOT = os.path.dirname(os.path.dirname(os.path.abspath(__file__)))
BASE = json.load(open('/root/.vp/BASELINE.json'))

CHECKS = {
 "C01": dict(engine="E1", technique="bounded-exhaustive enumeration of version-grammar products; all pairs by real Compare calls, all triples decided on the comparison matrix by a ranking certificate",
   text="Every pair of a 500-33 600 element grammar-product domain per system is compared on the real code, twice in different orders with fresh parses; reflexivity, antisymmetry, transitivity and congruence are decided for every triple of the domain (sound and complete O(n^2) ranking certificate); sorting is checked on every permutation of every <=5-subset of a 12-element sub-domain. Exhaustive within the stated alphabets, silent about versions outside them.",
   note="Trusted: the harness's matrix/certificate code and the domain generators; Maven is restricted to the DESIGN 6.4 dash-form domain as the property states.", ref="5 C01, 6.1-6.4"),
 "C09": dict(engine="E1", technique="bounded-exhaustive enumeration: all ordered pairs of a constraint-grammar product, Union/Intersect executed on the real Set type, membership compared on all boundary-neighbour versions",
   text="For Default, NPM, Cargo and Go every ordered pair (A,B) of 100-1300 parsed constraints is combined with the real Union and Intersect (both operand orders, fresh parses); membership of every boundary-neighbour version of both operands is compared with A's and B's own under normal and prerelease-inclusive matching; Empty(), operand purity and alternative-order invariance are checked. Exhaustive over the stated constraint/version alphabets.",
   note="Trusted: boundary-version derivation (neighbours of every bound printed by Set.String) - a disagreement strictly between listed neighbours would be missed; prerelease-inclusive matching of result sets goes through ParseSetConstraint(String()). One known finding (adjacent-merge-prerelease-gap) is suppressed by exact witness.", ref="5 C09, 6.5"),
 "C10": dict(engine="E1", technique="bounded-exhaustive enumeration of version-grammar products; canonical form re-parsed and compared on the real code",
   text="Every string of the C01 domains (plus out-of-domain Maven shapes) that Parse accepts is canonicalised with and without build metadata; the canonical string must parse, compare equal, be a fixed point, and all same-canonical-string groups must be pairwise equal; pypi.CanonVersion is cross-checked. Exhaustive over the alphabets.",
   note="Trusted: domain generators. RubyGems prerelease versions excluded as the property states.", ref="5 C10"),
 "C11": dict(engine="E1", technique="bounded-exhaustive enumeration of constraint-grammar products; Set.String re-parsed with ParseSetConstraint and matched on the whole boundary-version pool",
   text="For Default, NPM, Cargo, Go and NuGet every constraint of the grammar product is printed as a set, re-parsed, re-printed and compared under prerelease-inclusive matching on every version of the system's boundary pool (150-360 versions incl. minimum and very large versions).",
   note="Trusted: domain generators and pool derivation.", ref="5 C11, 6.5"),
 "C13": dict(engine="E1", technique="bounded-exhaustive enumeration of rooted graphs x all renumberings x edge/error orders; Canon executed on real resolve.Graph values, one-outcome-per-orbit oracle",
   text="All rooted graphs within stated node/edge/decoration bounds over a two-label alphabet (root included, so duplicates of the root occur) are presented to the real Canon under every renumbering of non-root nodes, every edge permutation (<=4 edges; otherwise 3 orders) and error rotations; within an orbit all outcomes must coincide, Canon must be idempotent and preserve root, node multiset and edge multiset. A structured 13-16 node family exercises sort.Sort's large-slice path.",
   note="The property's random 40-node family is replaced by exhaustive families (DESIGN 7). Trusted: orbit generation and graph dump.", ref="5 C13, 6.9"),
 "C14": dict(engine="E2", technique="explicit-state breadth-first search to closure over AddVersion histories on a real LocalClient (replay-based successors), every observation compared with a map model in every state",
   text="For NPM, Maven and PyPI the reachable state space of LocalClient under an alphabet of 48-60 AddVersion operations (4-5 keys, attribute changes incl. latest/blocked/deleted, three requirement lists) is explored to closure (12 415 states, 595 920 transitions per system in quick); in every state Version, Versions, Requirements and MatchingVersions for every key, package and table requirement - and never-added ones - must agree with the model. Closure covers histories of every length.",
   note="State key is the exact stored order and contents, so states with different internal order are not merged. Trusted: the 60-line map model and the hand satisfaction table.", ref="5 C14"),
 "C19": dict(engine="E2+E1", technique="explicit-state BFS to closure over pairs of attribute sets under add/clone/reset on the real types, plus full product of single sets with ranking certificate and text round trips",
   text="Pairs (X,Y) of dep.Type and of version.AttrSet are explored to closure (16 384 and 4 096 pair states) with model comparison through every accessor, Equal/Compare vs model equality and a destructive aliasing probe in every state; then every single set of the key/value product (400-2 000 sets) is built in two insertion orders, Compare is certified a total order whose equality is content equality, and each set is written in the documented schema syntax and parsed back (deptest, versiontest, schema.New).",
   note="Values avoid the characters the schema line syntax reserves (| @ #). Two known findings in internal test helpers are suppressed by exact witness.", ref="5 C19"),
}
ALL = ["C%02d" % i for i in range(1, 20)]
NA_REASON = "check not built yet in this session (planned; see DESIGN.md section 5)"

def main():
    checks = []
    for pid in ALL:
        if pid not in CHECKS: continue
        c = CHECKS[pid]
        checks.append({
            "property_id": pid,
            "quick_cmd": "./check %s quick" % pid,
            "thorough_cmd": "./check %s thorough" % pid,
            "evidence_file": "/verif/evidence/%s.json" % pid,
            "replay_cmd_template": "./check %s --replay {path}" % pid,
            "engine": c["engine"],
            "level_claimed": {"category": "model_checking", "text": c["text"], "design_ref": c["ref"]},
            "level_note": c["note"],
            "technique": c["technique"],
        })
    m = {
     "version": 1,
     "setup_cmd": "./check --setup",
     "hooks": {
       "guard": "verif",
       "enable": "go build -tags verif -overlay /verif/.cache/overlay/overlay.json (overlay regenerated from /repo's current sources by harness/cmd/genoverlay on every check)",
       "baseline_off_cmd": BASE["cmd"],
       "source_commits": HOOK_COMMITS,
       "add_only": True,
     },
     "engines": [
       {"name": "E1", "path": "harness/props, harness/dom", "serves_properties": [p for p in ALL if p in CHECKS and "E1" in CHECKS[p]["engine"]], "kind_free_text": "bounded-exhaustive enumeration of grammar-product input domains on the real functions (matrix + ranking certificate for tuple laws)"},
       {"name": "E2", "path": "harness/bfs", "serves_properties": [p for p in ALL if p in CHECKS and "E2" in CHECKS[p]["engine"]], "kind_free_text": "explicit-state breadth-first search over operation histories on real objects, replay-based successors, canonical state keys"},
       {"name": "E3", "path": "harness/sched", "serves_properties": [p for p in ALL if p in CHECKS and "E3" in CHECKS[p]["engine"]], "kind_free_text": "cooperative controlled scheduler with iterative preemption bounding (stateless DFS over schedules of real goroutines)"},
     ],
     "checks": checks,
     "not_applicable": [{"property_id": p, "reason": NA.get(p, NA_REASON)} for p in ALL if p not in CHECKS],
     "notes": "All checks explore the implementation itself; see DESIGN.md. exit 2 + HARNESS-ERROR marks a failure of the machinery, never a finding.",
    }
    json.dump(m, open(os.path.join(ROOT, "MANIFEST.json"), "w"), indent=1)
    print("MANIFEST.json: %d checks, %d not_applicable" % (len(checks), len(m["not_applicable"])))

HOOK_COMMITS = []
NA = {}
if __name__ == "__main__":
    main()
