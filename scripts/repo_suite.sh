#!/bin/bash
# runs the pinned suite on a tree (default /repo) without leaving go.sum changes; exit 0 iff all packages ok
T="${1:-/repo}"
export GOFLAGS=-mod=mod GOPROXY=off GOSUMDB=off GOTOOLCHAIN=local
rc=0
for m in api/v3 api/v3alpha util/maven util/pypi util/resolve util/semver; do
  rm -f /tmp/.gosum.$$; had=0; [ -f "$T/$m/go.sum" ] && { cp "$T/$m/go.sum" /tmp/.gosum.$$; had=1; }
  out=$(cd "$T/$m" && go test -vet=off -count=1 ./... 2>&1) || { rc=1; echo "$out" | grep -v "^ok\|no test files" | head -30; }
  if [ $had = 1 ]; then cp /tmp/.gosum.$$ "$T/$m/go.sum"; else rm -f "$T/$m/go.sum"; fi
done
rm -f /tmp/.gosum.$$
[ $rc = 0 ] && echo "SUITE OK ($T)" || echo "SUITE FAILED ($T)"
exit $rc
