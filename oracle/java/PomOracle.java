import java.io.*;
import java.nio.charset.StandardCharsets;
import java.util.*;
import java.util.concurrent.*;
import org.apache.maven.model.*;
import org.apache.maven.model.building.*;
import org.apache.maven.model.resolution.*;

/** Batch oracle for effective POMs (Maven's DefaultModelBuilder, validation level MINIMAL, no plugin processing).
 *  Run with -Dos.name=linux -Dos.arch=amd64 -Dos.version=<v>; java.version for JDK activation is args[0].
 *
 *  stdin, line oriented, fields separated by TAB, XML as one line (the generator writes no newlines inside a POM):
 *    CASE <id>
 *    FILE <g:a:v> <xml>
 *    BUILD <g:a:v>
 *  stdout, one line per case (in input order):
 *    <id> TAB OK TAB deps TAB mgmt        deps/mgmt = entries joined by \u001e, entry = g,a,v,type,classifier,scope,optional,exclusions(g:a|g:a) joined by \u001f
 *    <id> TAB ERR TAB <first problem>
 *  absent strings are written as the empty string; optional is the raw string of the model ("" when absent).
 */
public class PomOracle {
  static class Case { String id; Map<String, String> files = new LinkedHashMap<>(); String build; }

  static class MapResolver implements ModelResolver {
    final Map<String, String> files;
    MapResolver(Map<String, String> f) { files = f; }
    public ModelSource resolveModel(String g, String a, String v) throws UnresolvableModelException {
      String key = g + ":" + a + ":" + v;
      String xml = files.get(key);
      if (xml == null) throw new UnresolvableModelException("no such model " + key, g, a, v);
      return new StringModelSource(xml, key);
    }
    public ModelSource resolveModel(Parent p) throws UnresolvableModelException { return resolveModel(p.getGroupId(), p.getArtifactId(), p.getVersion()); }
    public ModelSource resolveModel(Dependency d) throws UnresolvableModelException { return resolveModel(d.getGroupId(), d.getArtifactId(), d.getVersion()); }
    public void addRepository(Repository r) {}
    public void addRepository(Repository r, boolean replace) {}
    public ModelResolver newCopy() { return this; }
  }

  static String nz(String s) { return s == null ? "" : s; }

  static String deps(List<Dependency> ds) {
    StringBuilder sb = new StringBuilder();
    boolean first = true;
    for (Dependency d : ds) {
      if (!first) sb.append('\u001e');
      first = false;
      StringBuilder ex = new StringBuilder();
      for (Exclusion e : d.getExclusions()) { if (ex.length() > 0) ex.append('|'); ex.append(nz(e.getGroupId())).append(':').append(nz(e.getArtifactId())); }
      sb.append(nz(d.getGroupId())).append('\u001f').append(nz(d.getArtifactId())).append('\u001f').append(nz(d.getVersion())).append('\u001f')
        .append(nz(d.getType())).append('\u001f').append(nz(d.getClassifier())).append('\u001f').append(nz(d.getScope())).append('\u001f')
        .append(nz(d.getOptional())).append('\u001f').append(ex);
    }
    return sb.toString();
  }

  static String run(ModelBuilder builder, Case c, Properties sys) {
    try {
      DefaultModelBuildingRequest req = new DefaultModelBuildingRequest();
      String xml = c.files.get(c.build);
      if (xml == null) return c.id + "\tERR\tno project file";
      req.setModelSource(new StringModelSource(xml, c.build));
      req.setModelResolver(new MapResolver(c.files));
      req.setValidationLevel(ModelBuildingRequest.VALIDATION_LEVEL_MINIMAL);
      req.setProcessPlugins(false);
      req.setTwoPhaseBuilding(false);
      req.setSystemProperties(sys);
      ModelBuildingResult res = builder.build(req);
      Model m = res.getEffectiveModel();
      String mg = m.getDependencyManagement() == null ? "" : deps(m.getDependencyManagement().getDependencies());
      StringBuilder warn = new StringBuilder();
      for (ModelProblem p : res.getProblems()) { if (warn.length() > 0) warn.append(" ;; "); warn.append(p.getSeverity()).append(": ").append(p.getMessage()); }
      return c.id + "\tOK\t" + deps(m.getDependencies()) + "\t" + mg + "\t" + warn.toString().replace('\t', ' ').replace('\n', ' ');
    } catch (ModelBuildingException e) {
      String msg = e.getProblems().isEmpty() ? String.valueOf(e.getMessage()) : e.getProblems().get(0).getMessage();
      for (ModelProblem p : e.getProblems()) if (p.getSeverity() == ModelProblem.Severity.ERROR || p.getSeverity() == ModelProblem.Severity.FATAL) { msg = p.getMessage(); break; }
      return c.id + "\tERR\t" + msg.replace('\t', ' ').replace('\n', ' ');
    } catch (Throwable t) {
      return c.id + "\tERR\tthrowable " + t.getClass().getName() + ": " + String.valueOf(t.getMessage()).replace('\t', ' ').replace('\n', ' ');
    }
  }

  public static void main(String[] args) throws Exception {
    final Properties sys = new Properties();
    sys.putAll(System.getProperties());
    sys.setProperty("java.version", args.length > 0 ? args[0] : "11.0.8");
    BufferedReader in = new BufferedReader(new InputStreamReader(System.in, StandardCharsets.UTF_8), 1 << 20);
    PrintStream out = new PrintStream(new BufferedOutputStream(System.out, 1 << 20), false, "UTF-8");
    int threads = Math.max(1, Math.min(16, Runtime.getRuntime().availableProcessors()));
    ExecutorService pool = Executors.newFixedThreadPool(threads);
    final ThreadLocal<ModelBuilder> builders = ThreadLocal.withInitial(() -> new DefaultModelBuilderFactory().newInstance());
    Deque<Future<String>> pending = new ArrayDeque<>();
    Case cur = null;
    String line;
    while ((line = in.readLine()) != null) {
      String[] f = line.split("\t", 3);
      switch (f[0]) {
        case "CASE": cur = new Case(); cur.id = f[1]; break;
        case "FILE": cur.files.put(f[1], f[2]); break;
        case "BUILD": {
          cur.build = f[1];
          final Case c = cur;
          pending.add(pool.submit(() -> run(builders.get(), c, sys)));
          while (pending.size() > 4096) out.println(pending.poll().get());
          break;
        }
        default: break;
      }
    }
    while (!pending.isEmpty()) out.println(pending.poll().get());
    out.flush();
    pool.shutdown();
  }
}
