import java.io.*;
import java.util.*;
import org.apache.maven.artifact.versioning.*;

/** Batch oracle: reads commands from stdin, one per line, fields separated by TAB.
 *    cmp  a  b            -> sign of ComparableVersion(a).compareTo(ComparableVersion(b))
 *    canon a              -> ComparableVersion(a).getCanonical()
 *    range spec v         -> "E" if spec does not parse, else 1/0 containsVersion, with bare versions (no restrictions) = 1
 */
public class MavenOracle {
  public static void main(String[] args) throws Exception {
    BufferedReader in = new BufferedReader(new InputStreamReader(System.in, "UTF-8"));
    PrintStream out = new PrintStream(new BufferedOutputStream(System.out, 1 << 16), false, "UTF-8");
    String line;
    while ((line = in.readLine()) != null) {
      String[] f = line.split("\t", -1);
      try {
        switch (f[0]) {
          case "cmp": out.println(Integer.signum(new ComparableVersion(f[1]).compareTo(new ComparableVersion(f[2])))); break;
          case "canon": out.println(new ComparableVersion(f[1]).getCanonical()); break;
          case "range": {
            VersionRange r;
            try { r = VersionRange.createFromVersionSpec(f[1]); } catch (InvalidVersionSpecificationException e) { out.println("E"); break; }
            DefaultArtifactVersion v = new DefaultArtifactVersion(f[2]);
            if (r.getRestrictions().isEmpty() || r.getRecommendedVersion() != null) { out.println("1"); break; }
            out.println(r.containsVersion(v) ? "1" : "0");
            break;
          }
          default: out.println("?");
        }
      } catch (Throwable t) { out.println("X:" + t.getClass().getSimpleName()); }
    }
    out.flush();
  }
}
