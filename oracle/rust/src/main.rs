// Line protocol on stdin (TAB separated): "v\t<version>" -> "1\t<display>" or "0";
// "c\t<a>\t<b>" -> -1/0/1 (precedence, build metadata ignored via cmp_precedence);
// "r\t<req>" -> 1/0 validity; "m\t<req>\t<version>" -> 1/0/E.
use semver::{Version, VersionReq};
use std::io::{self, BufRead, Write};
fn main() {
    let stdin = io::stdin();
    let out = io::stdout();
    let mut out = io::BufWriter::new(out.lock());
    for line in stdin.lock().lines() {
        let line = line.unwrap();
        let f: Vec<&str> = line.split('\t').collect();
        match f[0] {
            "v" => match Version::parse(f[1]) { Ok(v) => writeln!(out, "1\t{}", v).unwrap(), Err(_) => writeln!(out, "0").unwrap() },
            "c" => { let a = Version::parse(f[1]); let b = Version::parse(f[2]);
                match (a, b) { (Ok(a), Ok(b)) => writeln!(out, "{}", match a.cmp_precedence(&b) { std::cmp::Ordering::Less => -1, std::cmp::Ordering::Equal => 0, std::cmp::Ordering::Greater => 1 }).unwrap(), _ => writeln!(out, "E").unwrap() } },
            "r" => writeln!(out, "{}", if VersionReq::parse(f[1]).is_ok() { 1 } else { 0 }).unwrap(),
            "m" => match (VersionReq::parse(f[1]), Version::parse(f[2])) { (Ok(r), Ok(v)) => writeln!(out, "{}", if r.matches(&v) { 1 } else { 0 }).unwrap(), _ => writeln!(out, "E").unwrap() },
            _ => writeln!(out, "?").unwrap(),
        }
    }
}
