# Reads {"versions":[...], "requirements":[...], "candidates":[...], "names":[...], "reqstrings":[...], "markers":[...], "env":{...}}
# on stdin and answers with the packaging library: PEP 440 validity/normal form/rank classes, SpecifierSet
# satisfaction (default prerelease policy), PEP 508 requirement parsing, name normalisation, marker evaluation.
import json, sys
try:
    import packaging
    from packaging.version import Version, InvalidVersion
    from packaging.specifiers import SpecifierSet, InvalidSpecifier
    from packaging.requirements import Requirement, InvalidRequirement
    from packaging.utils import canonicalize_name
    from packaging.markers import Marker, InvalidMarker
    ver = getattr(packaging, '__version__', '?')
except ImportError:
    import pip._vendor.packaging as packaging
    from pip._vendor.packaging.version import Version, InvalidVersion
    from pip._vendor.packaging.specifiers import SpecifierSet, InvalidSpecifier
    from pip._vendor.packaging.requirements import Requirement, InvalidRequirement
    from pip._vendor.packaging.utils import canonicalize_name
    from pip._vendor.packaging.markers import Marker, InvalidMarker
    ver = getattr(packaging, '__version__', '?') + ' (pip vendored)'
q = json.load(sys.stdin)
out = {'tool': 'packaging ' + ver}
if 'versions' in q:
    vs = []
    for s in q['versions']:
        try: vs.append(Version(s))
        except InvalidVersion: vs.append(None)
    out['norm'] = [None if v is None else str(v) for v in vs]
    idx = sorted([i for i, v in enumerate(vs) if v is not None], key=lambda i: vs[i])
    rank = [-1] * len(vs); c = 0
    for k, i in enumerate(idx):
        if k > 0 and vs[idx[k-1]] != vs[i]: c += 1
        rank[i] = c
    out['rank'] = rank
if 'requirements' in q:
    cands = [Version(c) for c in q['candidates']]
    out['reqvalid'] = []; out['sat'] = []
    for r in q['requirements']:
        try: ss = SpecifierSet(r)
        except InvalidSpecifier:
            out['reqvalid'].append(False); out['sat'].append(''); continue
        out['reqvalid'].append(True)
        # default policy: prereleases only if the specifier itself names one
        out['sat'].append(''.join('1' if ss.contains(c, prereleases=(ss.prereleases or False)) else '0' for c in cands))
if 'names' in q:
    out['canon'] = [canonicalize_name(n) for n in q['names']]
if 'reqstrings' in q:
    res = []
    for s in q['reqstrings']:
        try:
            r = Requirement(s)
            if r.url: res.append({'url': True}); continue
            res.append({'name': canonicalize_name(r.name), 'extras': sorted(r.extras), 'spec': sorted(str(x) for x in r.specifier), 'marker': None if r.marker is None else str(r.marker)})
        except InvalidRequirement as e:
            res.append(None)
    out['parsed'] = res
if 'markers' in q:
    env = q['env']; res = []
    for m in q['markers']:
        try:
            mk = Marker(m)
            row = []
            for extra in q.get('extras', ['']):
                # pip: any(marker.evaluate({"extra": e}) for e in (requested extras or ("",)))
                try:
                    ok = False
                    for one in extra.split(','):
                        e = dict(env); e['extra'] = one
                        if mk.evaluate(e): ok = True
                    row.append('1' if ok else '0')
                except Exception as ex: row.append('x')
            res.append(''.join(row))
        except InvalidMarker:
            res.append(None)
    out['markereval'] = res
json.dump(out, sys.stdout)
