// Reads {"versions":[...], "requirements":[...], "candidates":[...]} on stdin; answers with node-semver
// (strict mode, includePrerelease:false): validity, normalised form, rank classes, and the satisfaction matrix.
const path = process.env.NODE_SEMVER || '/root/.nvm/versions/node/v20.20.2/lib/node_modules/npm/node_modules/semver';
const semver = require(path);
let input = '';
process.stdin.on('data', d => input += d);
process.stdin.on('end', () => {
  const q = JSON.parse(input);
  const out = { tool: 'node-semver ' + require(path + '/package.json').version };
  if (q.versions) {
    out.norm = q.versions.map(v => { try { return semver.valid(v); } catch (e) { return null; } });
    const idx = [];
    out.norm.forEach((n, i) => { if (n !== null) idx.push(i); });
    idx.sort((a, b) => semver.compare(q.versions[a], q.versions[b]));
    out.rank = q.versions.map(() => -1);
    let c = 0;
    idx.forEach((i, k) => {
      if (k > 0 && semver.compare(q.versions[idx[k - 1]], q.versions[i]) !== 0) c++;
      out.rank[i] = c;
    });
  }
  if (q.requirements) {
    out.reqvalid = q.requirements.map(r => semver.validRange(r) !== null);
    out.sat = q.requirements.map((r, ri) => {
      if (!out.reqvalid[ri]) return '';
      return q.candidates.map(v => { try { return semver.satisfies(v, r) ? '1' : '0'; } catch (e) { return 'x'; } }).join('');
    });
  }
  process.stdout.write(JSON.stringify(out));
});
