package ptree

import (
	"fmt"
	"strconv"
	"strings"
)

// ParseProto parses the subset of proto3 the repository's .proto files use
// (and a little more): syntax, package, import, file options, messages with
// nested messages/enums/oneofs/reserved/options, enums, services with rpc
// methods carrying google.api.http options. Anything else is an error, so a
// construct the comparison would not understand cannot slip through silently.
func ParseProto(src string) (Tree, error) {
	p := &parser{toks: lex(src)}
	t, err := p.file()
	if err != nil {
		return Tree{}, err
	}
	resolveNames(&t)
	return t, nil
}

type token struct {
	kind string // ident, int, str, sym, eof
	text string
	line int
}

func lex(src string) []token {
	var toks []token
	line := 1
	for i := 0; i < len(src); {
		c := src[i]
		switch {
		case c == '\n':
			line++
			i++
		case c == ' ' || c == '\t' || c == '\r':
			i++
		case c == '/' && i+1 < len(src) && src[i+1] == '/':
			for i < len(src) && src[i] != '\n' {
				i++
			}
		case c == '/' && i+1 < len(src) && src[i+1] == '*':
			j := strings.Index(src[i+2:], "*/")
			if j < 0 {
				j = len(src) - i - 2
			}
			line += strings.Count(src[i:i+2+j], "\n")
			i += j + 4
		case c == '"' || c == '\'':
			j := i + 1
			var sb strings.Builder
			for j < len(src) && src[j] != c {
				if src[j] == '\\' && j+1 < len(src) {
					j++
					switch src[j] {
					case 'n':
						sb.WriteByte('\n')
					case 't':
						sb.WriteByte('\t')
					default:
						sb.WriteByte(src[j])
					}
					j++
					continue
				}
				sb.WriteByte(src[j])
				j++
			}
			toks = append(toks, token{"str", sb.String(), line})
			i = j + 1
		case c >= '0' && c <= '9' || c == '-' && i+1 < len(src) && src[i+1] >= '0' && src[i+1] <= '9':
			j := i + 1
			for j < len(src) && (src[j] >= '0' && src[j] <= '9' || src[j] == 'x' || src[j] >= 'a' && src[j] <= 'f' || src[j] >= 'A' && src[j] <= 'F') {
				j++
			}
			toks = append(toks, token{"int", src[i:j], line})
			i = j
		case c == '_' || c >= 'a' && c <= 'z' || c >= 'A' && c <= 'Z':
			j := i + 1
			for j < len(src) && (src[j] == '_' || src[j] == '.' || src[j] >= 'a' && src[j] <= 'z' || src[j] >= 'A' && src[j] <= 'Z' || src[j] >= '0' && src[j] <= '9') {
				j++
			}
			toks = append(toks, token{"ident", src[i:j], line})
			i = j
		default:
			toks = append(toks, token{"sym", string(c), line})
			i++
		}
	}
	return append(toks, token{"eof", "", line})
}

type parser struct {
	toks []token
	pos  int
}

func (p *parser) peek() token { return p.toks[p.pos] }
func (p *parser) next() token {
	t := p.toks[p.pos]
	if p.pos < len(p.toks)-1 {
		p.pos++
	}
	return t
}
func (p *parser) errf(t token, format string, a ...any) error {
	return fmt.Errorf("line %d near %q: %s", t.line, t.text, fmt.Sprintf(format, a...))
}
func (p *parser) expect(kind, text string) (token, error) {
	t := p.next()
	if t.kind != kind || (text != "" && t.text != text) {
		return t, p.errf(t, "expected %s %q", kind, text)
	}
	return t, nil
}
func (p *parser) accept(kind, text string) bool {
	t := p.peek()
	if t.kind == kind && t.text == text {
		p.pos++
		return true
	}
	return false
}

func (p *parser) file() (Tree, error) {
	var t Tree
	for {
		tok := p.peek()
		if tok.kind == "eof" {
			return t, nil
		}
		if tok.kind == "sym" && tok.text == ";" {
			p.next()
			continue
		}
		if tok.kind != "ident" {
			return t, p.errf(tok, "unexpected token at file level")
		}
		p.next()
		switch tok.text {
		case "syntax":
			if _, err := p.expect("sym", "="); err != nil {
				return t, err
			}
			s, err := p.expect("str", "")
			if err != nil {
				return t, err
			}
			if s.text != "proto3" {
				return t, p.errf(s, "only proto3 is supported")
			}
			if _, err := p.expect("sym", ";"); err != nil {
				return t, err
			}
		case "package":
			n, err := p.expect("ident", "")
			if err != nil {
				return t, err
			}
			t.Package = n.text
			if _, err := p.expect("sym", ";"); err != nil {
				return t, err
			}
		case "import":
			if p.peek().kind == "ident" && (p.peek().text == "public" || p.peek().text == "weak") {
				return t, p.errf(p.peek(), "import modifiers are not supported")
			}
			s, err := p.expect("str", "")
			if err != nil {
				return t, err
			}
			t.Imports = append(t.Imports, s.text)
			if _, err := p.expect("sym", ";"); err != nil {
				return t, err
			}
		case "option":
			name, val, err := p.option()
			if err != nil {
				return t, err
			}
			if name == "go_package" {
				t.GoPackage = val
			} else {
				return t, p.errf(tok, "unsupported file option %s", name)
			}
		case "message":
			m, err := p.message()
			if err != nil {
				return t, err
			}
			t.Messages = append(t.Messages, m)
		case "enum":
			e, err := p.enum()
			if err != nil {
				return t, err
			}
			t.Enums = append(t.Enums, e)
		case "service":
			s, err := p.service()
			if err != nil {
				return t, err
			}
			t.Services = append(t.Services, s)
		default:
			return t, p.errf(tok, "unsupported top-level declaration")
		}
	}
}

// option parses `name = constant ;` after the keyword option (simple names only).
func (p *parser) option() (string, string, error) {
	n, err := p.expect("ident", "")
	if err != nil {
		return "", "", err
	}
	if _, err := p.expect("sym", "="); err != nil {
		return "", "", err
	}
	v := p.next()
	if v.kind != "str" && v.kind != "ident" && v.kind != "int" {
		return "", "", p.errf(v, "bad option value")
	}
	if _, err := p.expect("sym", ";"); err != nil {
		return "", "", err
	}
	return n.text, v.text, nil
}

func (p *parser) message() (Message, error) {
	var m Message
	n, err := p.expect("ident", "")
	if err != nil {
		return m, err
	}
	m.Name = n.text
	if _, err := p.expect("sym", "{"); err != nil {
		return m, err
	}
	for {
		tok := p.peek()
		switch {
		case tok.kind == "sym" && tok.text == "}":
			p.next()
			return m, nil
		case tok.kind == "sym" && tok.text == ";":
			p.next()
		case tok.kind == "eof":
			return m, p.errf(tok, "unterminated message %s", m.Name)
		case tok.kind == "ident" && tok.text == "message":
			p.next()
			nm, err := p.message()
			if err != nil {
				return m, err
			}
			m.Nested = append(m.Nested, nm)
		case tok.kind == "ident" && tok.text == "enum":
			p.next()
			e, err := p.enum()
			if err != nil {
				return m, err
			}
			m.Enums = append(m.Enums, e)
		case tok.kind == "ident" && tok.text == "oneof":
			p.next()
			on, err := p.expect("ident", "")
			if err != nil {
				return m, err
			}
			m.Oneofs = append(m.Oneofs, on.text)
			if _, err := p.expect("sym", "{"); err != nil {
				return m, err
			}
			for !p.accept("sym", "}") {
				if p.peek().kind == "eof" {
					return m, p.errf(p.peek(), "unterminated oneof")
				}
				f, err := p.field()
				if err != nil {
					return m, err
				}
				if f.Label != "" {
					return m, p.errf(tok, "label inside oneof")
				}
				f.Oneof = on.text
				m.Fields = append(m.Fields, f)
			}
		case tok.kind == "ident" && (tok.text == "reserved" || tok.text == "extensions" || tok.text == "extend" || tok.text == "group" || tok.text == "option" || strings.HasPrefix(tok.text, "map")) && p.toks[p.pos+1].kind != "ident":
			return m, p.errf(tok, "unsupported construct %s in message %s", tok.text, m.Name)
		case tok.kind == "ident" && tok.text == "reserved":
			return m, p.errf(tok, "reserved ranges are not supported by the comparison")
		case tok.kind == "ident":
			f, err := p.field()
			if err != nil {
				return m, err
			}
			m.Fields = append(m.Fields, f)
		default:
			return m, p.errf(tok, "unexpected token in message %s", m.Name)
		}
	}
}

func (p *parser) field() (Field, error) {
	var f Field
	t := p.next()
	if t.kind != "ident" {
		return f, p.errf(t, "expected field")
	}
	if t.text == "repeated" || t.text == "optional" {
		f.Label = t.text
		t = p.next()
		if t.kind != "ident" {
			return f, p.errf(t, "expected field type")
		}
	} else if t.text == "required" {
		return f, p.errf(t, "required is not proto3")
	}
	if t.text == "map" {
		return f, p.errf(t, "map fields are not supported by the comparison")
	}
	f.Type = t.text
	n, err := p.expect("ident", "")
	if err != nil {
		return f, err
	}
	f.Name = n.text
	if _, err := p.expect("sym", "="); err != nil {
		return f, err
	}
	num, err := p.expect("int", "")
	if err != nil {
		return f, err
	}
	v, err := strconv.ParseInt(num.text, 0, 32)
	if err != nil {
		return f, p.errf(num, "bad field number")
	}
	f.Number = int(v)
	if p.accept("sym", "[") {
		return f, p.errf(num, "field options are not supported by the comparison")
	}
	if _, err := p.expect("sym", ";"); err != nil {
		return f, err
	}
	return f, nil
}

func (p *parser) enum() (Enum, error) {
	var e Enum
	n, err := p.expect("ident", "")
	if err != nil {
		return e, err
	}
	e.Name = n.text
	if _, err := p.expect("sym", "{"); err != nil {
		return e, err
	}
	for {
		tok := p.next()
		switch {
		case tok.kind == "sym" && tok.text == "}":
			return e, nil
		case tok.kind == "sym" && tok.text == ";":
		case tok.kind == "ident" && (tok.text == "option" || tok.text == "reserved"):
			return e, p.errf(tok, "unsupported construct in enum %s", e.Name)
		case tok.kind == "ident":
			if _, err := p.expect("sym", "="); err != nil {
				return e, err
			}
			num, err := p.expect("int", "")
			if err != nil {
				return e, err
			}
			v, err := strconv.ParseInt(num.text, 0, 32)
			if err != nil {
				return e, p.errf(num, "bad enum number")
			}
			if p.accept("sym", "[") {
				return e, p.errf(num, "enum value options are not supported")
			}
			if _, err := p.expect("sym", ";"); err != nil {
				return e, err
			}
			e.Values = append(e.Values, EnumValue{tok.text, int(v)})
		default:
			return e, p.errf(tok, "unexpected token in enum %s", e.Name)
		}
	}
}

func (p *parser) service() (Service, error) {
	var s Service
	n, err := p.expect("ident", "")
	if err != nil {
		return s, err
	}
	s.Name = n.text
	if _, err := p.expect("sym", "{"); err != nil {
		return s, err
	}
	for {
		tok := p.next()
		switch {
		case tok.kind == "sym" && tok.text == "}":
			return s, nil
		case tok.kind == "sym" && tok.text == ";":
		case tok.kind == "ident" && tok.text == "rpc":
			m, err := p.rpc()
			if err != nil {
				return s, err
			}
			s.Methods = append(s.Methods, m)
		default:
			return s, p.errf(tok, "unexpected token in service %s", s.Name)
		}
	}
}

func (p *parser) rpcType() (string, bool, error) {
	if _, err := p.expect("sym", "("); err != nil {
		return "", false, err
	}
	stream := false
	t, err := p.expect("ident", "")
	if err != nil {
		return "", false, err
	}
	if t.text == "stream" {
		stream = true
		if t, err = p.expect("ident", ""); err != nil {
			return "", false, err
		}
	}
	if _, err := p.expect("sym", ")"); err != nil {
		return "", false, err
	}
	return t.text, stream, nil
}

func (p *parser) rpc() (Method, error) {
	var m Method
	n, err := p.expect("ident", "")
	if err != nil {
		return m, err
	}
	m.Name = n.text
	if m.Input, m.ClientStream, err = p.rpcType(); err != nil {
		return m, err
	}
	if _, err := p.expect("ident", "returns"); err != nil {
		return m, err
	}
	if m.Output, m.ServerStream, err = p.rpcType(); err != nil {
		return m, err
	}
	if p.accept("sym", ";") {
		return m, nil
	}
	if _, err := p.expect("sym", "{"); err != nil {
		return m, err
	}
	for !p.accept("sym", "}") {
		tok := p.next()
		if tok.kind == "sym" && tok.text == ";" {
			continue
		}
		if tok.kind != "ident" || tok.text != "option" {
			return m, p.errf(tok, "unexpected token in rpc %s", m.Name)
		}
		// option (google.api.http) = { ... };
		if _, err := p.expect("sym", "("); err != nil {
			return m, err
		}
		on, err := p.expect("ident", "")
		if err != nil {
			return m, err
		}
		if _, err := p.expect("sym", ")"); err != nil {
			return m, err
		}
		if on.text != "google.api.http" {
			return m, p.errf(on, "unsupported method option")
		}
		if _, err := p.expect("sym", "="); err != nil {
			return m, err
		}
		rules, err := p.httpRule()
		if err != nil {
			return m, err
		}
		m.HTTP = append(m.HTTP, rules...)
		p.accept("sym", ";")
	}
	return m, nil
}

// httpRule parses a text-format HttpRule message: { get: "..." body: "*" additional_bindings { ... } }.
func (p *parser) httpRule() ([]HTTPRule, error) {
	if _, err := p.expect("sym", "{"); err != nil {
		return nil, err
	}
	var primary HTTPRule
	var extra []HTTPRule
	for !p.accept("sym", "}") {
		k := p.next()
		if k.kind != "ident" {
			return nil, p.errf(k, "bad http rule")
		}
		switch k.text {
		case "get", "put", "post", "delete", "patch", "body", "response_body", "selector":
			if _, err := p.expect("sym", ":"); err != nil {
				return nil, err
			}
			v, err := p.expect("str", "")
			if err != nil {
				return nil, err
			}
			// adjacent string literals concatenate
			for p.peek().kind == "str" {
				v.text += p.next().text
			}
			switch k.text {
			case "body":
				primary.Body = v.text
			case "response_body", "selector":
				return nil, p.errf(k, "unsupported http rule field")
			default:
				if primary.Verb != "" {
					return nil, p.errf(k, "two patterns in one http rule")
				}
				primary.Verb, primary.Path = k.text, v.text
			}
		case "additional_bindings":
			p.accept("sym", ":")
			sub, err := p.httpRule()
			if err != nil {
				return nil, err
			}
			extra = append(extra, sub...)
		default:
			return nil, p.errf(k, "unsupported http rule field")
		}
		p.accept("sym", ",")
		p.accept("sym", ";")
	}
	return append([]HTTPRule{primary}, extra...), nil
}

var scalarTypes = map[string]bool{"double": true, "float": true, "int32": true, "int64": true, "uint32": true, "uint64": true, "sint32": true, "sint64": true,
	"fixed32": true, "fixed64": true, "sfixed32": true, "sfixed64": true, "bool": true, "string": true, "bytes": true}

// resolveNames rewrites field and rpc type names to names relative to the
// file's package using protobuf's scoping rule (innermost scope outwards);
// names that resolve to nothing in the file are taken as foreign full names.
func resolveNames(t *Tree) {
	known := map[string]bool{}
	var collect func(prefix string, ms []Message, es []Enum)
	collect = func(prefix string, ms []Message, es []Enum) {
		for _, e := range es {
			known[prefix+e.Name] = true
		}
		for _, m := range ms {
			known[prefix+m.Name] = true
			collect(prefix+m.Name+".", m.Nested, m.Enums)
		}
	}
	collect("", t.Messages, t.Enums)
	resolve := func(scope, name string) string {
		if scalarTypes[name] {
			return name
		}
		if strings.HasPrefix(name, ".") {
			if n := name[1:]; strings.HasPrefix(n, t.Package+".") {
				return n[len(t.Package)+1:]
			}
			return name
		}
		if strings.HasPrefix(name, t.Package+".") && known[name[len(t.Package)+1:]] {
			return name[len(t.Package)+1:]
		}
		for s := scope; ; {
			cand := name
			if s != "" {
				cand = s + "." + name
			}
			if known[cand] {
				return cand
			}
			if s == "" {
				break
			}
			if i := strings.LastIndexByte(s, '.'); i >= 0 {
				s = s[:i]
			} else {
				s = ""
			}
		}
		return "." + name // foreign (e.g. google.protobuf.Timestamp)
	}
	var walk func(scope string, ms []Message)
	walk = func(scope string, ms []Message) {
		for i := range ms {
			full := ms[i].Name
			if scope != "" {
				full = scope + "." + ms[i].Name
			}
			for j := range ms[i].Fields {
				ms[i].Fields[j].Type = resolve(full, ms[i].Fields[j].Type)
			}
			walk(full, ms[i].Nested)
		}
	}
	walk("", t.Messages)
	for i := range t.Services {
		for j := range t.Services[i].Methods {
			m := &t.Services[i].Methods[j]
			m.Input = resolve("", m.Input)
			m.Output = resolve("", m.Output)
		}
	}
}
