// Package ptree is a plain tree form of a proto file: the common currency for
// comparing embedded descriptors, .proto sources and the two API versions.
package ptree

import (
	"encoding/json"
	"sort"
	"strings"

	"google.golang.org/genproto/googleapis/api/annotations"
	"google.golang.org/protobuf/proto"
	"google.golang.org/protobuf/reflect/protoreflect"
)

type Tree struct {
	Package   string
	GoPackage string
	Imports   []string
	Services  []Service
	Messages  []Message
	Enums     []Enum
}

type Service struct {
	Name    string
	Methods []Method
}

type HTTPRule struct {
	Verb, Path, Body string
}

type Method struct {
	Name, Input, Output        string
	ClientStream, ServerStream bool
	HTTP                       []HTTPRule // primary rule first, then additional bindings
}

type Message struct {
	Name   string
	Fields []Field
	Oneofs []string
	Nested []Message
	Enums  []Enum
}

type Field struct {
	Name   string
	Number int
	Type   string // scalar keyword, or message/enum name relative to the file's package (full name if foreign)
	Label  string // "", "repeated", "optional"
	Oneof  string
}

type Enum struct {
	Name   string
	Values []EnumValue
}

type EnumValue struct {
	Name   string
	Number int
}

func rel(pkg string, full protoreflect.FullName) string {
	s := string(full)
	if pkg != "" && strings.HasPrefix(s, pkg+".") {
		return s[len(pkg)+1:]
	}
	return "." + s // foreign
}

// FromDescriptor converts an embedded file descriptor.
func FromDescriptor(fd protoreflect.FileDescriptor) Tree {
	pkg := string(fd.Package())
	t := Tree{Package: pkg}
	if opts, ok := fd.Options().(interface{ GetGoPackage() string }); ok && fd.Options() != nil {
		t.GoPackage = opts.GetGoPackage()
	}
	for i := 0; i < fd.Imports().Len(); i++ {
		t.Imports = append(t.Imports, fd.Imports().Get(i).Path())
	}
	for i := 0; i < fd.Services().Len(); i++ {
		sd := fd.Services().Get(i)
		s := Service{Name: string(sd.Name())}
		for j := 0; j < sd.Methods().Len(); j++ {
			md := sd.Methods().Get(j)
			m := Method{Name: string(md.Name()), Input: rel(pkg, md.Input().FullName()), Output: rel(pkg, md.Output().FullName()),
				ClientStream: md.IsStreamingClient(), ServerStream: md.IsStreamingServer()}
			if md.Options() != nil && proto.HasExtension(md.Options(), annotations.E_Http) {
				if r, ok := proto.GetExtension(md.Options(), annotations.E_Http).(*annotations.HttpRule); ok && r != nil {
					m.HTTP = append(m.HTTP, httpRule(r))
					for _, a := range r.AdditionalBindings {
						m.HTTP = append(m.HTTP, httpRule(a))
					}
				}
			}
			s.Methods = append(s.Methods, m)
		}
		t.Services = append(t.Services, s)
	}
	for i := 0; i < fd.Messages().Len(); i++ {
		t.Messages = append(t.Messages, fromMessage(pkg, fd.Messages().Get(i)))
	}
	for i := 0; i < fd.Enums().Len(); i++ {
		t.Enums = append(t.Enums, fromEnum(fd.Enums().Get(i)))
	}
	return t
}

func httpRule(r *annotations.HttpRule) HTTPRule {
	h := HTTPRule{Body: r.Body}
	switch p := r.Pattern.(type) {
	case *annotations.HttpRule_Get:
		h.Verb, h.Path = "get", p.Get
	case *annotations.HttpRule_Put:
		h.Verb, h.Path = "put", p.Put
	case *annotations.HttpRule_Post:
		h.Verb, h.Path = "post", p.Post
	case *annotations.HttpRule_Delete:
		h.Verb, h.Path = "delete", p.Delete
	case *annotations.HttpRule_Patch:
		h.Verb, h.Path = "patch", p.Patch
	case *annotations.HttpRule_Custom:
		h.Verb, h.Path = "custom:"+p.Custom.Kind, p.Custom.Path
	}
	return h
}

func fromMessage(pkg string, md protoreflect.MessageDescriptor) Message {
	m := Message{Name: string(md.Name())}
	for i := 0; i < md.Oneofs().Len(); i++ {
		od := md.Oneofs().Get(i)
		if !od.IsSynthetic() {
			m.Oneofs = append(m.Oneofs, string(od.Name()))
		}
	}
	for i := 0; i < md.Fields().Len(); i++ {
		fd := md.Fields().Get(i)
		f := Field{Name: string(fd.Name()), Number: int(fd.Number())}
		switch fd.Kind() {
		case protoreflect.MessageKind, protoreflect.GroupKind:
			f.Type = rel(pkg, fd.Message().FullName())
		case protoreflect.EnumKind:
			f.Type = rel(pkg, fd.Enum().FullName())
		default:
			f.Type = fd.Kind().String()
		}
		if fd.Cardinality() == protoreflect.Repeated {
			f.Label = "repeated"
		} else if fd.HasOptionalKeyword() {
			f.Label = "optional"
		}
		if od := fd.ContainingOneof(); od != nil && !od.IsSynthetic() {
			f.Oneof = string(od.Name())
		}
		m.Fields = append(m.Fields, f)
	}
	for i := 0; i < md.Messages().Len(); i++ {
		m.Nested = append(m.Nested, fromMessage(pkg, md.Messages().Get(i)))
	}
	for i := 0; i < md.Enums().Len(); i++ {
		m.Enums = append(m.Enums, fromEnum(md.Enums().Get(i)))
	}
	return m
}

func fromEnum(ed protoreflect.EnumDescriptor) Enum {
	e := Enum{Name: string(ed.Name())}
	for i := 0; i < ed.Values().Len(); i++ {
		v := ed.Values().Get(i)
		e.Values = append(e.Values, EnumValue{string(v.Name()), int(v.Number())})
	}
	return e
}

// JSON renders the tree.
func (t Tree) JSON() []byte {
	b, _ := json.MarshalIndent(t, "", " ")
	return b
}

// Flatten lists every declaration as "path = description", sorted, for order-insensitive comparison.
func (t Tree) Flatten() map[string]string {
	out := map[string]string{}
	out["package"] = t.Package
	out["go_package"] = t.GoPackage
	imps := append([]string(nil), t.Imports...)
	sort.Strings(imps)
	out["imports"] = strings.Join(imps, ",")
	for _, s := range t.Services {
		out["service "+s.Name] = "service"
		for _, m := range s.Methods {
			p := "service " + s.Name + " rpc " + m.Name
			out[p] = "rpc"
			out[p+" input"] = m.Input
			out[p+" output"] = m.Output
			out[p+" streaming"] = boolPair(m.ClientStream, m.ServerStream)
			out[p+" http#"] = itoa(len(m.HTTP))
			for i, h := range m.HTTP {
				out[p+" http["+itoa(i)+"]"] = h.Verb + " " + h.Path + " body=" + h.Body
			}
		}
	}
	var msg func(prefix string, m Message)
	enum := func(prefix string, e Enum) {
		p := "enum " + prefix + e.Name
		out[p] = "enum"
		for i, v := range e.Values {
			out[p+" value "+v.Name] = itoa(v.Number)
			out[p+" value#"+itoa(i)] = v.Name
		}
	}
	msg = func(prefix string, m Message) {
		p := "message " + prefix + m.Name
		out[p] = "message"
		for _, o := range m.Oneofs {
			out[p+" oneof "+o] = "oneof"
		}
		for i, f := range m.Fields {
			fp := p + " field " + f.Name
			out[fp] = "field"
			out[fp+" number"] = itoa(f.Number)
			out[fp+" type"] = f.Type
			out[fp+" label"] = f.Label
			out[fp+" oneof"] = f.Oneof
			out[p+" number "+itoa(f.Number)] = f.Name
			out[p+" field#"+itoa(i)] = f.Name
		}
		for _, n := range m.Nested {
			msg(prefix+m.Name+".", n)
		}
		for _, e := range m.Enums {
			enum(prefix+m.Name+".", e)
		}
	}
	for _, m := range t.Messages {
		msg("", m)
	}
	for _, e := range t.Enums {
		enum("", e)
	}
	return out
}

func boolPair(a, b bool) string {
	s := ""
	if a {
		s += "client"
	}
	if b {
		s += "server"
	}
	return s
}

func itoa(i int) string {
	if i == 0 {
		return "0"
	}
	neg := i < 0
	if neg {
		i = -i
	}
	var b []byte
	for i > 0 {
		b = append([]byte{byte('0' + i%10)}, b...)
		i /= 10
	}
	if neg {
		return "-" + string(b)
	}
	return string(b)
}
