// Package bfs is engine E2: explicit-state breadth-first search over operation
// histories on real objects. Live objects are never cloned: a successor is
// produced by replaying the (shortest known) path on a fresh instance and
// applying one more operation.
package bfs

import (
	"sort"
	"sync"

	"verif/harness/core"
)

// Spec describes one search.
type Spec struct {
	NumOps int
	// Run builds a fresh instance, applies the operations of path in order and
	// returns the canonical state key. If check is true it must also evaluate
	// the invariants of the reached state (reporting through its own Run).
	Run func(path []int, check bool) (key string)
	// MaxDepth bounds the search (0 = run to closure).
	MaxDepth int
	// MaxStates caps the number of stored states (0 = unlimited).
	MaxStates int
	// Stop is polled between levels; returning true ends the search (cap).
	Stop func() bool
}

// Result reports what the search covered.
type Result struct {
	States      int
	Transitions int64
	Depth       int
	Closed      bool // true iff the frontier emptied (reachable space fully explored)
	Paths       map[string][]int
}

type cand struct {
	key  string
	path []int
}

// Search runs the breadth-first search.
func Search(sp Spec) Result {
	seen := map[string][]int{}
	k0 := sp.Run(nil, true)
	seen[k0] = []int{}
	frontier := [][]int{{}}
	res := Result{States: 1}
	for depth := 1; len(frontier) > 0; depth++ {
		if sp.MaxDepth > 0 && depth > sp.MaxDepth {
			res.Paths = seen
			return res
		}
		if sp.Stop != nil && sp.Stop() {
			res.Paths = seen
			return res
		}
		var mu sync.Mutex
		var cands []cand
		core.ParFor(len(frontier), func(fi int) {
			base := frontier[fi]
			var local []cand
			for op := 0; op < sp.NumOps; op++ {
				p := append(append(make([]int, 0, len(base)+1), base...), op)
				k := sp.Run(p, true)
				local = append(local, cand{k, p})
			}
			mu.Lock()
			cands = append(cands, local...)
			mu.Unlock()
		})
		res.Transitions += int64(len(cands))
		sort.Slice(cands, func(i, j int) bool {
			a, b := cands[i].path, cands[j].path
			for x := range a {
				if a[x] != b[x] {
					return a[x] < b[x]
				}
			}
			return false
		})
		var next [][]int
		for _, c := range cands {
			if _, ok := seen[c.key]; !ok {
				seen[c.key] = c.path
				next = append(next, c.path)
			}
		}
		res.States = len(seen)
		res.Depth = depth
		if len(next) == 0 {
			res.Depth = depth - 1
		}
		frontier = next
		if sp.MaxStates > 0 && len(seen) >= sp.MaxStates && len(frontier) > 0 {
			res.Paths = seen
			return res
		}
	}
	res.Closed = true
	res.Paths = seen
	return res
}
