// Package dom generates the bounded input domains of DESIGN §6 as full
// products of small per-slot alphabets, deduplicated, simplest first.
package dom

import (
	"sort"
	"strings"

	"deps.dev/util/semver"
)

// Systems lists the nine systems in semver's order.
var Systems = []semver.System{semver.DefaultSystem, semver.Cargo, semver.Go, semver.Maven, semver.NPM,
	semver.NuGet, semver.PyPI, semver.RubyGems, semver.Composer}

// SysByName maps System.String() back to the value.
func SysByName(s string) (semver.System, bool) {
	for _, sys := range Systems {
		if sys.String() == s {
			return sys, true
		}
	}
	return 0, false
}

func dedup(in []string) []string {
	seen := map[string]bool{}
	var out []string
	for _, s := range in {
		if !seen[s] {
			seen[s] = true
			out = append(out, s)
		}
	}
	return out
}

// product returns all concatenations slot0+slot1+..., first slot slowest.
func product(slots ...[]string) []string {
	out := []string{""}
	for _, sl := range slots {
		var nxt []string
		for _, p := range out {
			for _, s := range sl {
				nxt = append(nxt, p+s)
			}
		}
		out = nxt
	}
	return out
}

func simplestFirst(in []string) []string {
	out := append([]string(nil), in...)
	sort.SliceStable(out, func(i, j int) bool { return len(out[i]) < len(out[j]) })
	return out
}

func take(in []string, n int) []string {
	if len(in) < n {
		return in
	}
	return in[:n]
}

var (
	svMajor = []string{"0", "1", "2", "10"}
	svMinor = []string{"0", "1", "10"}
	svPatch = []string{"0", "2"}
	svPre   = []string{"", "-0", "-1", "-10", "-a", "-alpha", "-alpha.1", "-alpha.beta", "-beta", "-beta.2", "-beta.11", "-rc.1", "-A", "-a-b", "-1a", "-0.0", "-a.0"}
	svBuild = []string{"", "+b", "+001"}
)

// SemverFamily returns the §6.1 domain for one of Default, Cargo, Go, NPM,
// NuGet, Composer.
func SemverFamily(sys semver.System, quick bool) []string {
	pre, build := svPre, svBuild
	if quick {
		pre = []string{"", "-0", "-1", "-10", "-a", "-alpha", "-alpha.1", "-alpha.beta", "-beta.2", "-beta.11", "-A", "-a-b", "-1a", "-0.0"}
		build = []string{"", "+b"}
	}
	var cores []string
	for _, ma := range svMajor {
		for _, mi := range svMinor {
			for _, pa := range svPatch {
				cores = append(cores, ma+"."+mi+"."+pa)
			}
		}
	}
	out := product(cores, pre, build)
	// partial forms
	for _, p := range []string{"0", "1", "0.0", "1.2", "2.0", "10"} {
		out = append(out, p)
		for _, q := range []string{"-alpha", "-1", "+b"} {
			out = append(out, p+q)
		}
	}
	big := []string{"9007199254740991", "9007199254740992", "9223372036854775806", "9223372036854775807", "4611686018427387904"}
	for _, b := range big {
		out = append(out, b+".0.0", "1."+b+".0", "1.0."+b, "1.0.0-"+b, "1.0.0-"+b+"0")
	}
	// wildcard forms accepted by Parse
	out = append(out, "*", "1.*", "1.x", "1.2.*", "1.2.X", "x")
	switch sys {
	case semver.Go:
		for i := range out {
			out[i] = "v" + out[i]
		}
		out = append(out, "1.0.0", "vv1.0.0", "v01.0.0")
	case semver.NPM:
		out = append(out, product([]string{"v", "vv"}, []string{"1.0.0", "1.0.2", "0.1.0", "1.0.0-alpha", "1.0.0-1", "2.0.0+b"})...)
		out = append(out, "01.0.0", "1.00.0", "1.0.02", "1.0.0-01", "1.0.0-010", "1.0.0-00", "1.0.0-0a", "1.0.0-alpha.01", "1.0.0-alpha.010", "001.001.001")
	case semver.NuGet:
		out = append(out, product([]string{"1.0.0", "1.1.0", "1.0.2", "2.0.0"}, []string{".0", ".4", ".10"}, []string{"", "-alpha", "-1", "+b"})...)
		out = append(out, "1.0.0-Alpha", "1.0.0-ALPHA", "1.0.0-alpha.Beta", "1.0.0-Beta", "1.0.0-beta", "1.0.0-aLpha.1", "1.0.0-B", "1.0.0-b", "1.0.0-a", "1.0.0-Z", "1.0.0-z", "1.0.0-_",
			"1.0.0-2147483647", "1.0.0-2147483648", "1.0.0-2147483649", "1.0.0-4294967296", "01.0.0", "1.00.0", "1.0.0-01")
	case semver.Composer:
		out = append(out, product([]string{"v", "V"}, []string{"1.0.0", "1.0.2", "0.1.0", "1.0.0-alpha", "1.0.0-1", "2.0.0+b", "1.2"})...)
		out = append(out, "1.0.0.0", "1.0.0.1", "1.2.3.4", "1.0.0.0-alpha", "01.0.0", "1.00.0")
	case semver.Cargo, semver.DefaultSystem:
		out = append(out, "v1.0.0", "01.0.0", "1.0.0-01", "1.0.0.0")
	}
	return dedup(out)
}

// PEP440 returns the §6.2 domain.
func PEP440(quick bool) []string {
	epoch := []string{"", "1!"}
	release := []string{"1", "1.0", "1.0.0", "1.1", "2", "0.9", "1.0.1", "1.10"}
	pre := []string{"", "a0", "a1", "a2", "b1", "rc1", "rc2", "c1", ".alpha1", "-beta.2", "pre1", "preview3"}
	post := []string{"", ".post0", ".post1", ".post2", "-1", ".rev3", ".r1"}
	dev := []string{"", ".dev0", ".dev1", ".dev2", "dev3"}
	local := []string{"", "+abc", "+1", "+abc.1", "+2.a"}
	if quick {
		release = []string{"1", "1.0", "1.0.0", "1.1", "0.9", "1.10"}
		pre = []string{"", "a0", "a1", "b1", "rc1", ".alpha1"}
		post = []string{"", ".post0", ".post1", "-1"}
		dev = []string{"", ".dev0", ".dev1"}
		local = []string{"", "+abc", "+1"}
	}
	out := product(epoch, release, pre, post, dev, local)
	base := take(product([]string{"1.0", "1.1", "2"}, []string{"", "a1", "rc1"}, []string{"", ".post1"}, []string{"", ".dev1"}, []string{"", "+abc"}), 50)
	for _, b := range base {
		out = append(out, "v"+b, "V"+b, strings.ToUpper(b), " "+b, b+" ", "\t"+b+"\n")
	}
	out = append(out, "0", "0.0", "0!1", "00!1.0", "1.0.post", "1.0.dev", "1.0a", "1.0.a.1", "1.0_post1", "1.0-post1", "1.0-r4", "1.0+ABC", "1.0+abc-1", "1.0+abc_1",
		"1.0.0.0", "1.0.0.0.1", "01.0", "1.00", "1.0a01", "1.0alpha", "1.0-a1", "1.0_a1", "1.0.a1", "1.0rc", "1.0c", "1.0pre", "1.0preview", "1.0.post-1", "1.0post.1",
		"2!0", "1.0+1.2", "1.0+2.1", "1.0+10", "1.0+9", "1.0+a", "1.0+A", "1.0+b", "1.0+1a", "1.0+a1",
		// numeric local segments with leading zeros compare by value
		"1.0+01", "1.0+007", "1.0+8", "1.0+2024.01", "1.0+2024.2", "1.0a1+00", "1.0a1+0", "1.0+0", "1.0+00.1", "1.0+0.01",
		// local labels mixing the three separators
		"1.0+ubuntu-1_2", "1.0+ubuntu.1.2", "1.0+a_b-c", "1.0+a-b_c", "1.0+a.b-c_d", "1.0+1-2_3", "1.0+a-b", "1.0+a_b", "1.0+a.b", "1.0.post1+x_y-z", "1!1.0a1+u-1_2",
		// numeric local segments beyond 64 bits
		"1.0+100000000000000000000", "1.0+99999999999999999999", "1.0+18446744073709551616", "1.0+18446744073709551615", "1.0+100000000000000000000.1")
	return dedup(out)
}

// RubyGems returns the §6.3 RubyGems domain.
func RubyGems(quick bool) []string {
	release := []string{"1", "1.0", "1.0.0", "1.2", "1.2.3", "1.2.3.4", "2", "0.9", "1.10", "1.0.0.0", "0", "1.2.0", "1.2.3.0"}
	pre := []string{"", ".a", ".b", ".a.1", ".a.2", ".a1", ".rc1", ".rc.1", ".pre", ".pre.1", "-a", "-1", ".a.0", ".a.0.b", "a", "b2", ".A", ".a.b", ".beta.10", ".beta.9",
		".a.10", ".a.9", "-a.1", ".a-1", ".a1b", ".1a", "rc", ".a.0.0", ".b.0", "-2", "-a-b",
		// zeros spelled with several digits
		".a.00", ".a.00.1", ".a.0.00", ".b.000", ".a.00.b"}
	out := product(release, pre)
	// more plain releases (1-4 components) for the release-only clauses
	nums := []string{"0", "1", "2", "10"}
	out = append(out, product(nums, []string{"", ".0", ".1", ".10"}, []string{"", ".0", ".2"}, []string{"", ".0", ".3"})...)
	out = append(out, "01", "1.02", "1.0.a.01", "1..0", "1.a.b.c.d", "1.0.0.0.0.1", "1.0.0.0.0.0", "1.x")
	return dedup(out)
}

// Maven returns the §6.4 dash-form domain and, separately, the out-of-domain
// shapes that only the totality/canon clauses use.
func Maven(quick bool) (inDomain, outOfDomain []string) {
	numeric := []string{"1", "1.0", "1.0.0", "1.1", "1.0.1", "2", "0", "1.10", "0.1", "1.00", "1.01", "01", "1.0.02"}
	// numbers introduced by a dash (build numbers): 2.0-3 against 2.0.1 and 2.0.3
	var dashNums []string
	for _, n := range []string{"1", "1.0", "2.0", "1.1"} {
		for _, d := range []string{"-1", "-2", "-3", "-10", "-0"} {
			dashNums = append(dashNums, n+d)
		}
	}
	dashNums = append(dashNums, "2.0.1", "2.0.3", "2.0.2", "1.0.2", "1.0.3", "1.1.1", "1.0.10")
	qual := []string{"alpha", "a", "beta", "b", "milestone", "m", "rc", "cr", "snapshot", "sp", "foo", "xyz", "ALPHA", "RC", "Beta"}
	num := []string{"", "1", "2", "10", "-1"}
	snap := []string{"", "-SNAPSHOT"}
	if quick {
		numeric = []string{"1", "1.0", "1.0.0", "1.1", "1.0.1", "2", "0", "1.10", "1.00", "1.01"}
		num = []string{"", "1", "2", "-1"}
	}
	for _, n := range numeric {
		inDomain = append(inDomain, n, n+"-SNAPSHOT")
		for _, q := range qual {
			for _, k := range num {
				for _, s := range snap {
					inDomain = append(inDomain, n+"-"+q+k+s)
				}
			}
		}
		for _, q := range []string{"ga", "final", "release", "GA", "Final"} {
			inDomain = append(inDomain, n+"-"+q)
			outOfDomain = append(outOfDomain, n+"-"+q+"1", n+"-"+q+"-1", n+"-"+q+"-SNAPSHOT")
		}
		// a plain trailing number after a dash is Maven's "build number" shape: numeric prefix only
		for _, q := range qual[:6] {
			outOfDomain = append(outOfDomain, n+"."+q, n+"."+q+"1", n+"."+q+".1", n+q, n+q+"1")
		}
	}
	inDomain = append(inDomain, dashNums...)
	outOfDomain = append(outOfDomain, "", "-", ".", "1-", "1.", "1..0", "1--a", "a", "1-1-1", "1_0", "1-a.b", "1-a-b-c", "1-0", "1-00", "1.0.0.0.0", "1-alpha-beta", "01", "1.01", "٣", "1-é")
	return dedup(inDomain), dedup(outOfDomain)
}

// C01Extra adds, for the total-order property only, prerelease identifiers made of digits that overflow 64 bits in
// two different lengths next to digit-leading alphanumeric identifiers that sort between them as text: a comparator
// that ranks the oversized numbers by length but everything else as text has a cycle through the three.
func C01Extra(sys semver.System) []string {
	switch sys {
	case semver.PyPI, semver.RubyGems, semver.Maven:
		return nil
	}
	out := []string{"1.0.0-99999999999999999999", "1.0.0-100000000000000000000", "1.0.0-5x", "1.0.0-20200101000000-abcdef123456",
		"1.0.0-rc.99999999999999999999", "1.0.0-rc.100000000000000000000", "1.0.0-rc.5x"}
	if sys == semver.Go {
		for i := range out {
			out[i] = "v" + out[i]
		}
	}
	return out
}

// Versions returns the comparison domain of a system (the strings handed to
// Parse; unparsable ones are counted and skipped by the caller).
func Versions(sys semver.System, quick bool) []string {
	switch sys {
	case semver.PyPI:
		return PEP440(quick)
	case semver.RubyGems:
		return RubyGems(quick)
	case semver.Maven:
		in, _ := Maven(quick)
		return in
	}
	return SemverFamily(sys, quick)
}
