package dom

import "strings"

// ReqStrings is the PEP 508 requirement-string product of the tier.
func ReqStrings(quick bool) []string {
	names := []string{"foo", "Foo", "foo-bar", "foo_bar", "Foo.Bar", "foo--bar", "f", "a1", "foo-_.bar", "FOO.-_bar9"}
	lead := []string{"", " "}
	extsep := []string{"", " "}
	extras := []string{"", "[x]", "[x,y]", "[ x , y ]", "[]", "[X]", "[x-y]", "[x_y, z.w]"}
	sep1 := []string{"", " ", "\t", "  "}
	specs := []string{"", ">=1.0", "(>=1.0)", ">=1.0,<2", "(>=1.0,<2)", "( >=1.0 , <2 )", ">= 1.0", ">=1.0 , <2", "==1.*", "~=1.2", "!=1.5,>1", "===1.0", "==1.0+local", "<2,>=1.0,!=1.5", "( >= 1.0 )", "(==1.*)", "()"}
	sep2 := []string{"", " "}
	markers := []string{"", `python_version >= "3"`, `python_version>='3'`, `extra == "x"`, `os_name == "posix" and (python_version < "3" or extra == 'y')`, `sys_platform=="linux"`,
		`"3" <= python_version`, `python_version >= "3" and os_name != 'nt' or extra == "z"`}
	msep := []string{" ", ""}
	trail := []string{"", " "}
	if quick {
		names = names[:6]
		extras = extras[:5]
		sep1 = sep1[:2]
		specs = specs[:10]
		markers = markers[:5]
		trail = trail[:1]
	}
	seen := map[string]bool{}
	var out []string
	for _, n := range names {
		for _, l := range lead {
			for _, es := range extsep {
				for _, e := range extras {
					if e == "" && es != "" {
						continue
					}
					for _, s1 := range sep1 {
						for _, sp := range specs {
							if sp == "" && s1 != "" {
								continue
							}
							for _, s2 := range sep2 {
								for _, m := range markers {
									if m == "" && s2 != "" {
										continue
									}
									for _, ms := range msep {
										if m == "" && ms != " " {
											continue
										}
										for _, t := range trail {
											s := l + n + es + e + s1 + sp
											if m != "" {
												s += s2 + ";" + ms + m
											}
											s += t
											if !seen[s] {
												seen[s] = true
												out = append(out, s)
											}
										}
									}
								}
							}
						}
					}
				}
			}
		}
	}
	return out
}

// PackageNames is every PEP 508-valid name over the alphabet {a, B, 1, -, _, .} up to the length bound.
func PackageNames(quick bool) []string {
	alpha := []string{"a", "B", "1", "-", "_", "."}
	max := 6
	if quick {
		max = 5
	}
	var out []string
	var rec func(s string)
	rec = func(s string) {
		if len(s) > 0 {
			last := s[len(s)-1]
			if last != '-' && last != '_' && last != '.' {
				out = append(out, s)
			}
		}
		if len(s) == max {
			return
		}
		for _, c := range alpha {
			if len(s) == 0 && (c == "-" || c == "_" || c == ".") {
				continue
			}
			rec(s + c)
		}
	}
	rec("")
	return out
}

// MarkerVars lists the variables the library knows.
var MarkerVars = []string{"python_version", "python_full_version", "os_name", "sys_platform", "platform_machine", "platform_python_implementation",
	"platform_release", "platform_system", "platform_version", "implementation_name", "implementation_version", "extra"}

var markerOps = []string{"==", "!=", "<", "<=", ">", ">=", "~=", "===", "in", "not in"}

// Markers is the marker-expression domain for the environment env (variable -> value).
func Markers(env map[string]string, quick bool) []string {
	lits := func(v string) []string {
		val := env[v]
		if v == "extra" {
			return []string{"x", "y", "X", ""}
		}
		out := []string{val}
		// neighbours of the value: a prefix, an extension, case change, a version above and below
		if len(val) > 1 {
			out = append(out, val[:len(val)-1])
		}
		out = append(out, val+"0", strings.ToUpper(val), "")
		switch v {
		case "python_version":
			out = append(out, "3", "3.10", "2.7", "3.9", "3.8", "3.9.0", "4", "3.*", "3.9.*", "3.9rc1", "v3.8", "V3.9", "v3.10")
		case "python_full_version", "implementation_version":
			out = append(out, "3", "3.9", "3.9.6", "3.9.7", "3.10.0", "3.9.6.0", "3.9.5", "3.9.*", "3.9.6rc1", "3.9.6+local", "v3.9.6", "V3.9.0")
		case "platform_release":
			out = append(out, "6", "6.9", "5.0", "7.0.0", "6.9.10", "6.10.0")
		case "platform_version":
			out = append(out, "1", "#1")
		default:
			out = append(out, "linux", "posix", "x86_64", "cpython", "Linux", "win32", "nt", "l", "1.0")
		}
		return dedup(out)
	}
	var atoms []string
	for _, v := range MarkerVars {
		ls := lits(v)
		if quick && len(ls) > 7 {
			keep := ls[:7]
			for _, l := range ls[7:] {
				if strings.HasPrefix(l, "v") || strings.HasPrefix(l, "V") {
					keep = append(keep, l) // a v-prefixed literal is a PEP 440 version too
				}
			}
			ls = keep
		}
		for _, op := range markerOps {
			for _, l := range ls {
				atoms = append(atoms, v+" "+op+` "`+l+`"`, `"`+l+`" `+op+" "+v)
			}
		}
	}
	// quoting and spacing variants (variable against variable, literal against literal and the PEP 345 aliases
	// os.name / python_implementation are outside the property's expression grammar)
	atoms = append(atoms, `python_version>="3"`, `python_version  >=  '3'`,
		`python_version>='3'`, `os_name=="posix"`, `extra=="x"`, `extra== 'x'`, `python_version not  in "3.9 3.10"`, `"2.7" not in python_version`)
	// literals that differ only in the white space inside the quotes (adjacent, so that one resolver sees both)
	if pv := env["platform_version"]; strings.Count(pv, " ") >= 2 {
		w := strings.Fields(pv)
		one, two := w[1]+" "+w[2], w[1]+"  "+w[2]
		atoms = append(atoms, `"`+one+`" in platform_version`, `"`+two+`" in platform_version`, `"`+two+`" not in platform_version`, `"`+one+`" not in platform_version`,
			`platform_version == "`+pv+`"`, `platform_version == "`+strings.Replace(pv, " ", "  ", 1)+`"`, `platform_version != "`+strings.Replace(pv, " ", "  ", 1)+`"`, `platform_version != "`+pv+`"`,
			`"`+one+`"  in  platform_version`, `"`+one+"\t\tin platform_version"+``)
	}
	out := append([]string{}, atoms...)
	small := []string{`python_version >= "3"`, `python_version < "3"`, `os_name == "posix"`, `os_name == "nt"`, `extra == "x"`, `extra == "y"`, `sys_platform != "win32"`, `python_full_version ~= "3.9.0"`,
		`"linux" in sys_platform`, `platform_machine not in "x86_64 arm64"`, `implementation_name == "cpython"`, `python_version in "3.8 3.9"`}
	if quick {
		small = small[:8]
	}
	for _, a := range small {
		for _, b := range small {
			if a == b {
				continue
			}
			out = append(out, a+" and "+b, a+" or "+b, "("+a+") and ("+b+")", a+" and("+b+")")
		}
	}
	tri := small
	if len(tri) > 6 {
		tri = tri[:6]
	}
	for _, a := range tri {
		for _, b := range tri {
			for _, c := range tri {
				if a == b || b == c || a == c {
					continue
				}
				out = append(out, a+" and "+b+" or "+c, a+" or "+b+" and "+c, a+" and ("+b+" or "+c+")", "("+a+" or "+b+") and "+c, a+" or "+b+" or "+c, a+" and "+b+" and "+c)
			}
		}
	}
	out = append(out, `((python_version >= "3"))`, ` python_version >= "3" `, `python_version >= "3" and`, `and python_version >= "3"`, `python_version >= "3" os_name == "posix"`, `(python_version >= "3"`,
		`python_version >= 3`, `python_version >= "3" AND os_name == "posix"`, `not python_version >= "3"`, `python_version >= "3" and not (os_name == "nt")`)
	return dedup(out)
}
