package dom

import (
	"sort"

	"deps.dev/util/semver"
)

// MatchDomain returns the requirement strings and candidate versions of the
// constraint-matching comparison (C03) for NPM, Cargo, PyPI or Maven.
func MatchDomain(sys semver.System) (reqs, cands []string) {
	switch sys {
	case semver.NPM, semver.Cargo:
		return semverMatchDomain(sys)
	case semver.PyPI:
		return pypiMatchDomain()
	case semver.Maven:
		return mavenMatchDomain()
	}
	return nil, nil
}

func semverMatchDomain(sys semver.System) (reqs, cands []string) {
	nums, wild, pre := operands(1)
	ops := semverOps(sys)
	opnds := append(append(append([]string{}, nums...), wild...), pre...)
	var atoms []string
	for _, op := range ops {
		for _, o := range opnds {
			atoms = append(atoms, op+o)
		}
	}
	reqs = append(reqs, atoms...)
	// compounds over a reduced atom list chosen so that bounds collide
	small := []string{">=0.2", "<1", "<=1.2.3", ">0.0.3", "^0.2", "~1.2", "<2.0.0-0", ">=1.2.3-alpha", "1.x", "<0.2", ">1", "=1.2.3", ">=1", "<=1", "<1.2.3", ">1.2.3",
		">=2.0.0", "<2", "^1.2.3", "~0.0.3", "^0.0.3", "^0.0", "~0", "<=0.2", ">=0.0.0", "<1.2.3-beta.2", ">1.2.3-alpha", "*", "0.x", "^2",
		// a lower bound that is the successor of another atom's excluded upper bound; prerelease bounds on two tuples
		">=1.2.4", ">=0.0.4"}
	if sys == semver.Cargo {
		small = append(small, "1.2", "0.2.0", "0.0", "=1.2", "=0")
	} else {
		small = append(small, "~>1.2", "1.2.3", "~>2", "v1.2.3", "=v1.0.0")
	}
	and := " "
	if sys == semver.Cargo {
		and = ", "
	}
	for _, a := range small {
		for _, b := range small {
			if a != b {
				reqs = append(reqs, a+and+b)
			}
		}
	}
	if sys != semver.Cargo {
		for _, a := range small {
			for _, b := range small {
				if a != b {
					reqs = append(reqs, a+" || "+b)
				}
			}
		}
		hy := []string{"0", "1", "1.2", "0.0.3", "1.2.3", "2", "2.0.0", "1.2.3-alpha", "1.x", "0.2", "2.2.3"}
		for _, a := range hy {
			for _, b := range hy {
				reqs = append(reqs, a+" - "+b)
			}
		}
		tri := []string{"<1", "1.2.3-alpha", ">=2", "1.2.3-beta.2", "1.2.3", "<0.2", "0.2.0-alpha", "^0.2", "1 - 2", "2.5.0-rc", "2 - 3", "1 - 2.7", "2.6 - 3", ">1.2.3", "<=1.2.3"}
		for _, a := range tri {
			for _, b := range tri {
				for _, c := range tri {
					if a != b && b != c && a != c {
						reqs = append(reqs, a+" || "+b+" || "+c)
					}
				}
			}
		}
		reqs = append(reqs, ">=0.2 <1 || >=1.2.3 <2", ">0.0.3 <=0.2.0 || >0.2.0 <1", ">=0.1.1 <1 || ~>2", "<0.2 ^0.2", ">=1 <1", ">1 <=1", ">=1.2.3 <=1.2.3", ">1.2.3 <1.2.3", "", " ", "1.2.3 - 1", "<0.0.0-beta", "<0.0.1-0", ">=0.0.0-0")
	} else {
		for _, a := range small[:12] {
			for _, b := range small[:12] {
				for _, c := range small[:12] {
					if a != b && b != c && a != c {
						reqs = append(reqs, a+", "+b+", "+c)
					}
				}
			}
		}
		reqs = append(reqs, "<0.2, ^0.2", ">=1, <1", ">1, <=1", ">=1.2.3, <=1.2.3", ">1.2.3, <1.2.3", ">=1.2.3-alpha, <1.2.3", "^0.0, <0.0.3", "", "*", "1.*", "1.2.*", ">=1.*")
	}
	// prerelease bounds on two different tuples (the candidate sits on the upper bound's tuple)
	for _, lo := range []string{">=1.0.0-alpha", ">1.0.0-alpha", ">=1.2.3-alpha"} {
		for _, hi := range []string{"<2.0.0-rc", "<=2.0.0-rc", "<2.0.0-rc.1"} {
			reqs = append(reqs, lo+and+hi, hi+and+lo)
		}
	}
	if sys != semver.Cargo {
		reqs = append(reqs, "1.0.0-alpha - 2.0.0-rc", "1.2.3-alpha - 2.0.0-rc.1")
		// an alternative that ends just below X and one that starts at X's successor: X itself is in neither
		for _, x := range [][2]string{{"1.2.3", "1.2.4"}, {"2.0.0", "2.0.1"}, {"0.2.0", "0.2.1"}, {"1.0.0", "1.0.1"}} {
			for _, lo := range []string{">=0.0.3", ">0.0.3"} {
				reqs = append(reqs, lo+" <"+x[0]+" || >="+x[1], ">="+x[1]+" || "+lo+" <"+x[0], lo+" <"+x[0]+" || >"+x[0], lo+" <="+x[0]+" || >="+x[1], lo+" <"+x[0]+" || "+x[1]+" - 3", lo+" <"+x[0]+" || ^"+x[1])
			}
		}
	}
	reqs = dedup(reqs)
	// candidates: neighbours of every number occurring in the operands, completed to three components
	seen := map[string]bool{}
	add := func(v string) {
		if !seen[v] {
			seen[v] = true
			cands = append(cands, v)
		}
	}
	for _, o := range append(append([]string{}, nums...), "2.5.0", "2.6.0", "2.7.0", "2.2.3", "3.0.0", "0.1.1") {
		for _, nb := range BoundNeighbours(sys, o) {
			add(nb)
		}
	}
	for _, p := range pre {
		for _, nb := range BoundNeighbours(sys, p) {
			add(nb)
		}
	}
	for _, g := range []string{"0.0.0-0", "0.0.0", "0.0.0-alpha", "999999.999999.999999", "1.2.3-beta.2", "1.2.3-beta.11", "1.2.3-alpha.1", "2.5.0-rc", "2.5.0-rc.1", "1.0.0+b", "2.0.0-beta", "2.0.0-rc", "2.0.0-rc.1", "1.0.0-alpha", "1.0.0-beta", "1.2.4", "0.0.4"} {
		add(g)
	}
	sort.Strings(cands)
	// candidates are versions: drop generated neighbours that are not (a trailing dot, an empty identifier)
	var ok []string
	for _, c := range cands {
		if _, err := sys.Parse(c); err == nil {
			ok = append(ok, c)
		}
	}
	return reqs, ok
}

func pypiMatchDomain() (reqs, cands []string) {
	ops := []string{"==", "!=", "<=", ">=", "<", ">", "~="}
	opnds := []string{"1", "1.0", "1.2", "1.2.3", "2.0", "0.9", "1.10", "2", "1.0.0", "1.2.0", "2.0.0", "0.0.1"}
	var atoms []string
	for _, op := range ops {
		for _, o := range opnds {
			if op == "~=" && o == "1" || op == "~=" && o == "2" {
				continue
			}
			atoms = append(atoms, op+o)
		}
	}
	for _, o := range []string{"1", "1.2", "2.0", "0", "1.2.3"} {
		atoms = append(atoms, "=="+o+".*", "!="+o+".*")
	}
	// prerelease / post / dev operands in specifiers (candidates stay final releases)
	for _, o := range []string{"1.2rc1", "2.0a1", "1.0.post1", "1.2.dev1", "1.0b2"} {
		for _, op := range []string{"==", "!=", "<=", ">=", "<", ">"} {
			atoms = append(atoms, op+o)
		}
	}
	reqs = append(reqs, atoms...)
	small := []string{">=1.0", "<2.0", "!=1.2", "==1.2.*", "~=1.2", ">1.2", "<=1.2.3", "!=1.*", ">=0.9", "<1.10", "==1.0", "~=1.2.3", ">2", "<1", ">=1.2rc1", "<2.0a1", "!=2.0", ">=1.2.3", "<=2.0", ">0.9"}
	for _, a := range small {
		for _, b := range small {
			if a != b {
				reqs = append(reqs, a+","+b)
			}
		}
	}
	for _, a := range small[:10] {
		for _, b := range small[:10] {
			for _, c := range small[:10] {
				if a != b && b != c && a != c {
					reqs = append(reqs, a+", "+b+" ,"+c)
				}
			}
		}
	}
	reqs = append(reqs, "", ">2.0,<=2.0", ">=2.0,<2.0", ">=1.0,<=1.0", "!=1.2,!=1.5", "!=1.5,>=1.0", "!=2.1.*,<4", ">= 1.0", "==1.0 ", " >=1.0 , <2.0 ", "==1", ">=1,<2")
	reqs = dedup(reqs)
	// candidates: final releases with a non-zero release segment
	for _, a := range []string{"0", "1", "2", "3", "4"} {
		for _, b := range []string{"", ".0", ".1", ".2", ".5", ".9", ".10", ".11"} {
			for _, c := range []string{"", ".0", ".1", ".3", ".4"} {
				v := a + b + c
				if b == "" && c != "" {
					continue
				}
				if a == "0" && (b == "" || b == ".0") && (c == "" || c == ".0") {
					continue // zero release segment: out of domain
				}
				cands = append(cands, v)
			}
		}
	}
	cands = append(cands, "1.2.2", "1.2.3.0", "1.2.3.1", "2.0.0.0", "1.1.9", "0.0.1", "0.0.2", "1.9.9", "999")
	cands = dedup(cands)
	return reqs, cands
}

func mavenMatchDomain() (reqs, cands []string) {
	vs := []string{"1", "1.0", "1.2", "1.2.3", "2", "2.0", "0.9", "1.10", "1.0-alpha", "1.0-rc1", "2.0-SNAPSHOT", "1.2-sp"}
	for _, a := range vs {
		reqs = append(reqs, a, "["+a+"]", "["+a+",)", "("+a+",)", "(,"+a+"]", "(,"+a+")")
		for _, b := range vs {
			for _, l := range []string{"[", "("} {
				for _, r := range []string{"]", ")"} {
					reqs = append(reqs, l+a+","+b+r)
				}
			}
		}
	}
	ranges := []string{"[1.0,1.2)", "[1.2,2.0]", "(,0.9]", "[2,)", "[1.0]", "(1.0,1.2.3)", "[1.10,2)", "(,1.0)", "(1.2,)"}
	for _, a := range ranges {
		for _, b := range ranges {
			if a != b {
				reqs = append(reqs, a+","+b)
			}
		}
	}
	reqs = append(reqs, "(,)", "[,]", "[1.0,1.0]", "(1.0,1.0)", "[1.0,1.0)", "[2.0,1.0]", "[1.0,2.0),[3.0,4.0]", "[1.0,)", "(,1.0],[1.2,)")
	reqs = dedup(reqs)
	for _, a := range []string{"0", "0.1", "0.9", "0.9.9", "1", "1.0", "1.0.0", "1.0.1", "1.1", "1.2", "1.2.2", "1.2.3", "1.2.4", "1.9", "1.10", "1.10.1", "1.11", "2", "2.0", "2.0.1", "2.1", "3", "3.0", "4.0", "99"} {
		cands = append(cands, a)
	}
	cands = append(cands, "1.0-alpha", "1.0-alpha-1", "1.0-beta", "1.0-rc1", "1.0-rc2", "1.0-SNAPSHOT", "1.0-sp", "1.0-1", "1.2-sp", "1.2-sp-1", "1.2-alpha", "2.0-SNAPSHOT", "2.0-rc1", "2.0-alpha", "1.0.0-rc1", "1.2.3-SNAPSHOT", "1.10-beta")
	cands = dedup(cands)
	return reqs, cands
}
