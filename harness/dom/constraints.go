package dom

import (
	"strings"

	"deps.dev/util/semver"
)

// Numeric operands of DESIGN §6.5.
func operands(level int) (nums, wild, pre []string) {
	for _, x := range []string{"0", "1", "2"} {
		nums = append(nums, x)
		for _, y := range []string{"0", "2"} {
			nums = append(nums, x+"."+y)
			for _, z := range []string{"0", "3"} {
				nums = append(nums, x+"."+y+"."+z)
			}
		}
	}
	wild = []string{"*", "1.x", "1.2.*", "0.*", "0.0.x", "x", "2.X"}
	pre = []string{"1.2.3-alpha", "1.2.3-beta.2", "0.0.1-0", "1.0.0-rc.1", "2.0.0-0", "0.2.0-alpha"}
	if level == 0 {
		nums = []string{"0", "1", "0.0", "0.2", "1.2", "0.0.0", "0.0.3", "0.2.0", "1.2.3", "2.0.0"}
		wild = []string{"*", "1.x", "1.2.*", "0.0.x"}
		pre = []string{"1.2.3-alpha", "0.0.1-0", "2.0.0-0"}
	}
	return
}

func semverOps(sys semver.System) []string {
	switch sys {
	case semver.Cargo:
		return []string{"", "=", ">", ">=", "<", "<=", "^", "~"}
	case semver.NPM, semver.DefaultSystem:
		return []string{"", "=", ">", ">=", "<", "<=", "^", "~", "~>"}
	}
	return nil
}

// glue atoms for compounds: a small list chosen so that bounds collide
// (equal ends with every open/closed combination, adjacent spans, prerelease bounds).
func glueAtoms(sys semver.System, level int) []string {
	l := []string{">=0.2", "<1", "<=1.2.3", ">0.0.3", "^0.2", "~1.2", "<2.0.0-0", ">=1.2.3-alpha", "1.x", "<0.2", ">1", "=1.2.3",
		">=1", "<=1", "<1.2.3", ">1.2.3", ">=2.0.0", "<2", "^1.2.3", "~0.0.3"}
	if level == 0 {
		l = l[:14]
	}
	if sys == semver.Cargo {
		l = append(l, "1.2", "0.2.0")
	} else {
		l = append(l, "~>1.2", "1.2.3")
	}
	return l
}

// SetConstraints returns the constraint domain used for the set-algebra and
// round-trip properties (C09, C11) for Default, NPM, Cargo, Go, NuGet.
// level 0 = quick, 1 = thorough.
func SetConstraints(sys semver.System, level int) []string {
	var out []string
	nums, wild, pre := operands(level)
	switch sys {
	case semver.Go:
		for _, x := range []string{"0", "1", "2", "3", "10"} {
			for _, y := range []string{"0", "2"} {
				for _, z := range []string{"0", "3"} {
					c := "v" + x + "." + y + "." + z
					out = append(out, c, c+"-alpha", c+"-0", c+"-rc.1", c+"+b")
				}
			}
		}
		out = append(out, "v1", "v1.2", "v0", "v2.0")
		return dedup(out)
	case semver.NuGet:
		vs := append(append([]string{}, nums...), pre...)
		if level == 0 {
			vs = []string{"0", "1", "1.2", "0.0.3", "1.2.3", "2.0.0", "1.2.3-alpha", "2.0.0-0"}
		}
		for _, a := range vs {
			out = append(out, a, "["+a+"]", "["+a+",)", "("+a+",)", "(,"+a+"]", "(,"+a+")")
			for _, b := range vs {
				for _, l := range []string{"[", "("} {
					for _, r := range []string{"]", ")"} {
						out = append(out, l+a+","+b+r)
					}
				}
			}
		}
		out = append(out, "*", "1.*", "1.2.*", "0.*", "1.2.3-*", "1.2.3-alpha*", "1.2.*-*", "[1.*,)", "[1.2.*, 2.0.0)", "(,)", "[,]", "1.0.0.0", "1.0.0.4", "[1.0.0.4,2)")
		return dedup(out)
	}
	ops := semverOps(sys)
	opnds := append(append(append([]string{}, nums...), wild...), pre...)
	for _, op := range ops {
		for _, o := range opnds {
			out = append(out, op+o)
		}
	}
	glue := glueAtoms(sys, level)
	and := " "
	if sys == semver.Cargo {
		and = ", "
	}
	for _, a := range glue {
		for _, b := range glue {
			if a != b {
				out = append(out, a+and+b)
			}
		}
	}
	if sys != semver.Cargo {
		for _, a := range glue {
			for _, b := range glue {
				if a != b {
					out = append(out, a+" || "+b)
				}
			}
		}
		hy := []string{"0", "1", "1.2", "0.0.3", "1.2.3", "2", "2.0.0", "1.2.3-alpha", "1.x"}
		if level == 0 {
			hy = hy[:6]
		}
		for _, a := range hy {
			for _, b := range hy {
				out = append(out, a+" - "+b)
			}
		}
		// three-way OR with a prerelease unit in the middle, and AND-lists inside OR
		tri := [][3]string{{"<1", "1.2.3-alpha", ">=2"}, {">=2", "1.2.3-alpha", "<1"}, {"1.2.3-alpha", "1.2.3-beta.2", "1.2.3"}, {"<0.2", "0.2.0-alpha", "^0.2"},
			{"0.0.1-0", "0.0.1", "0.0.0"}, {"<=1.2.3", ">1.2.3", "1.2.3-alpha"}, {"<1.2.3", ">1.2.3", "=1.2.3"}, {"<1", "1.x", ">=2"}}
		for _, t := range tri {
			out = append(out, t[0]+" || "+t[1]+" || "+t[2], t[2]+" || "+t[1]+" || "+t[0], t[1]+" || "+t[0]+" || "+t[2])
		}
		// closed and open spans with one upper bound and different lower bounds
		out = append(out, "1.2.3 - 2.0.0", ">=1.2.3 <2.0.0", "0.2 - 2.0.0", ">=1 <2", "0.0.3 - 1.2.3", ">=0.2 <1.2.3", ">=1.2.3-alpha <=2.0.0", ">1.2.3 <2.0.0")
		out = append(out, ">=0.2 <1 || >=1.2.3 <2", ">=1.2.3 <2 || >=0.2 <1", ">0.0.3 <=0.2.0 || >0.2.0 <1", ">=0.1.1 <1 || ~>2", "<0.2 ^0.2", ">=1 <1", ">1 <=1", ">=1.2.3 <=1.2.3", ">1.2.3 <1.2.3")
	} else {
		out = append(out, ">=0.2, <1, >0.0.3", "<0.2, ^0.2", ">=1, <1", ">1, <=1", ">=1.2.3, <=1.2.3", ">1.2.3, <1.2.3", ">=1.2.3-alpha, <1.2.3", "^0.0, <0.0.3")
	}
	out = append(out, "")
	return dedup(out)
}

// BoundNeighbours returns candidate versions around one bound version
// (major.minor.patch[-pre]); inf components are replaced by a large number.
func BoundNeighbours(sys semver.System, b string) []string {
	prefix := ""
	if sys == semver.Go {
		prefix = "v"
		b = strings.TrimPrefix(b, "v")
	}
	b = strings.ReplaceAll(b, "∞", "999999")
	core, pre := b, ""
	if i := strings.IndexByte(b, '-'); i >= 0 {
		core, pre = b[:i], b[i:]
	}
	parts := strings.Split(core, ".")
	for len(parts) < 3 {
		parts = append(parts, "0")
	}
	if len(parts) > 4 {
		parts = parts[:4]
	}
	n := make([]int64, len(parts))
	for i, p := range parts {
		var x int64
		for _, c := range p {
			if c < '0' || c > '9' {
				return nil
			}
			x = x*10 + int64(c-'0')
			if x > 1<<40 {
				x = 1 << 40
			}
		}
		n[i] = x
	}
	mk := func(a, b, c int64, suffix string) string {
		if a < 0 || b < 0 || c < 0 {
			return ""
		}
		return prefix + itoa(a) + "." + itoa(b) + "." + itoa(c) + suffix
	}
	var out []string
	add := func(s string) {
		if s != "" {
			out = append(out, s)
		}
	}
	pres := []string{"", "-0", "-alpha", "-rc.1"}
	if pre != "" {
		pres = append(pres, pre, pre+".0", pre+"a")
		if len(pre) > 2 {
			pres = append(pres, pre[:len(pre)-1])
		}
	}
	for _, p := range pres {
		add(mk(n[0], n[1], n[2], p))
	}
	for _, p := range []string{"", "-0"} {
		add(mk(n[0], n[1], n[2]+1, p))
		add(mk(n[0], n[1]+1, 0, p))
		add(mk(n[0]+1, 0, 0, p))
	}
	add(mk(n[0], n[1], n[2]-1, ""))
	add(mk(n[0], n[1]-1, 999999, ""))
	add(mk(n[0], n[1]-1, 0, ""))
	add(mk(n[0]-1, 999999, 999999, ""))
	add(mk(n[0]-1, 0, 0, ""))
	add(mk(n[0], n[1], n[2], "+b"))
	return out
}

func itoa(x int64) string {
	if x == 0 {
		return "0"
	}
	var b [24]byte
	i := len(b)
	for x > 0 {
		i--
		b[i] = byte('0' + x%10)
		x /= 10
	}
	return string(b[i:])
}

// SetStringBounds extracts the bound version strings from a Set.String() text.
func SetStringBounds(s string) []string {
	s = strings.TrimSuffix(strings.TrimPrefix(s, "{"), "}")
	var out []string
	for _, sp := range strings.Split(s, ",") {
		sp = strings.Trim(sp, "[]()")
		for _, v := range strings.Split(sp, ":") {
			if v != "" && v != "<empty>" {
				out = append(out, v)
			}
		}
	}
	return out
}

// RoundTripExtras are constraints only the text round trip (C11) uses: OR-lists of three hyphen or comparator
// ranges in which two ranges share a lower bound, one upper bound is a prerelease (canon keeps such spans apart)
// and a third range overlaps or abuts the others, so that a canonical set has several spans with one minimum;
// NuGet floating patterns with four components; bounds next to the largest representable number.
func RoundTripExtras(sys semver.System) []string {
	var out []string
	switch sys {
	case semver.DefaultSystem, semver.NPM:
		lows := []string{"1.0.0", "1.2.3"}
		ups := []string{"1.5.0", "2.0.0-a", "3.0.0", "1.3.0-b", "1.2.5", "2.0.0"}
		mids := []string{"1.4.0", "1.2.4", "2.0.0-a", "1.5.0"}
		for _, l := range lows {
			for _, u1 := range ups {
				for _, u2 := range ups {
					if u1 == u2 {
						continue
					}
					for _, m := range mids {
						for _, u3 := range ups {
							out = append(out, l+" - "+u1+" || "+l+" - "+u2+" || "+m+" - "+u3)
						}
					}
					out = append(out, ">="+l+" <"+u1+" || >="+l+" <="+u2+" || >=1.2.4", ">="+l+" <="+u1+" || >="+l+" <"+u2+" || >1.4.0 <3")
				}
			}
		}
		out = append(out, ">1.2.9223372036854775806", ">=1.2.9223372036854775806", "<=1.9223372036854775806.0", ">9223372036854775806.0.0")
	case semver.NuGet:
		out = append(out, "1.2.3.*", "[1.2.3.*,)", "1.2.3.4", "[1.2.3.4,1.2.3.5)", "(1.2.3.4,)", "1.2.3.4-*")
		// prerelease bounds in upper and mixed case (the set text prints them in lower case)
		out = append(out, "[1.0.0-Beta,2.0.0)", "(1.0.0-RC,)", "[1.0.0-alpha,1.0.0-Zeta]", "(,1.0.0-Beta]", "[1.0.0-BETA.2,1.0.0-rc.1)", "1.0.0-Beta")
	case semver.Cargo:
		out = append(out, ">1.2.9223372036854775806", ">=1.2.9223372036854775806")
	}
	return dedup(out)
}
