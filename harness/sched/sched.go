// Package sched is engine E3: a cooperative controlled scheduler for real
// goroutines with iterative preemption bounding (stateless depth-first search
// over schedules). Exactly one managed thread runs at a time; threads hand
// control back at scheduling points (Yield, Lock, Unlock, thread end).
package sched

import (
	"fmt"
	"runtime"
	"sync"
)

// Mutex identity used by the lock model: any comparable pointer.
type lockID any

type thread struct {
	id    int
	wake  chan struct{}
	done  bool
	want  lockID // non-nil while waiting for a lock
	label string
}

// Point records one scheduling decision.
type Point struct {
	Enabled        []int // thread ids in canonical order (running thread first if still enabled)
	Chosen         int   // index into Enabled
	RunningEnabled bool  // the thread that was running is still enabled (choosing another is a preemption)
	Label          string
}

// Exec is one controlled execution.
type Exec struct {
	threads  []*thread
	cur      *thread
	yield    chan struct{}
	held     map[lockID]int // lock -> holder thread id
	prefix   []int
	Points   []Point
	Deadlock bool
	abort    bool
	Diverged string
	mu       sync.Mutex
}

var (
	activeMu sync.Mutex
	active   *Exec
)

// Active returns the execution currently running on this process (nil if none).
func Active() *Exec {
	activeMu.Lock()
	defer activeMu.Unlock()
	return active
}

// Yield is a scheduling point for the running managed thread. It is a no-op
// when no controlled execution is active.
func Yield(label string) {
	if e := Active(); e != nil && e.cur != nil {
		e.yieldNow(label)
	}
}

// Lock models acquiring a mutex: a scheduling point at which the thread is
// enabled only while the lock is free. Returns false if no execution is active.
func Lock(id any) bool {
	e := Active()
	if e == nil || e.cur == nil {
		return false
	}
	t := e.cur
	t.want = id
	e.yieldNow("lock")
	// resumed: the scheduler only enables us when the lock is free
	t.want = nil
	if e.abort {
		runtime.Goexit()
	}
	e.held[id] = t.id
	return true
}

// Unlock models releasing a mutex, followed by a scheduling point.
func Unlock(id any) bool {
	e := Active()
	if e == nil || e.cur == nil {
		return false
	}
	delete(e.held, id)
	e.yieldNow("unlock")
	return true
}

func (e *Exec) yieldNow(label string) {
	if e.abort {
		return // the execution is being torn down (deferred unlocks of exiting threads)
	}
	t := e.cur
	t.label = label
	e.yield <- struct{}{}
	<-t.wake
	if e.abort && t.want == nil {
		runtime.Goexit()
	}
}

// Run executes bodies under the schedule prefix (then choice 0 everywhere).
func Run(prefix []int, bodies []func()) *Exec {
	e := &Exec{yield: make(chan struct{}), held: map[lockID]int{}, prefix: prefix}
	for i := range bodies {
		e.threads = append(e.threads, &thread{id: i, wake: make(chan struct{})})
	}
	activeMu.Lock()
	if active != nil {
		activeMu.Unlock()
		panic("sched: nested controlled execution")
	}
	active = e
	activeMu.Unlock()
	defer func() {
		activeMu.Lock()
		active = nil
		activeMu.Unlock()
	}()
	var wg sync.WaitGroup
	for i, b := range bodies {
		t, b := e.threads[i], b
		wg.Add(1)
		go func() {
			defer wg.Done()
			<-t.wake
			defer func() {
				t.done = true
				t.label = "end"
				// release locks held by a thread that ended abnormally (Goexit during abort)
				e.yield <- struct{}{}
			}()
			if e.abort {
				return
			}
			b()
		}()
	}
	var running *thread
	for step := 0; ; step++ {
		// enabled threads in canonical order
		var enabled []*thread
		runningEnabled := false
		isEnabled := func(t *thread) bool {
			if t.done {
				return false
			}
			if t.want != nil {
				_, heldBy := e.held[t.want]
				return !heldBy
			}
			return true
		}
		if running != nil && isEnabled(running) {
			enabled = append(enabled, running)
			runningEnabled = true
		}
		for _, t := range e.threads {
			if t != running && isEnabled(t) {
				enabled = append(enabled, t)
			}
		}
		if len(enabled) == 0 {
			allDone := true
			for _, t := range e.threads {
				if !t.done {
					allDone = false
				}
			}
			if !allDone {
				e.Deadlock = true
				// abort: wake every blocked thread so that it exits
				e.abort = true
				for _, t := range e.threads {
					if !t.done {
						e.cur = t
						t.wake <- struct{}{}
						<-e.yield
					}
				}
			}
			break
		}
		choice := 0
		if step < len(prefix) {
			choice = prefix[step]
			if choice >= len(enabled) {
				e.Diverged = fmt.Sprintf("step %d: prefix choice %d but only %d threads enabled", step, choice, len(enabled))
				// finish the execution with default choices so that goroutines end
				choice = 0
			}
		}
		ids := make([]int, len(enabled))
		for i, t := range enabled {
			ids[i] = t.id
		}
		label := ""
		if running != nil {
			label = running.label
		}
		e.Points = append(e.Points, Point{Enabled: ids, Chosen: choice, RunningEnabled: runningEnabled, Label: label})
		running = enabled[choice]
		e.cur = running
		running.wake <- struct{}{}
		<-e.yield
	}
	e.cur = nil
	wg.Wait()
	return e
}

// Choices returns the choice sequence of the execution.
func (e *Exec) Choices() []int {
	c := make([]int, len(e.Points))
	for i, p := range e.Points {
		c[i] = p.Chosen
	}
	return c
}

// Schedule returns the sequence of thread ids that ran.
func (e *Exec) Schedule() []int {
	s := make([]int, len(e.Points))
	for i, p := range e.Points {
		s[i] = p.Enabled[p.Chosen]
	}
	return s
}

// Stats summarises an exploration.
type Stats struct {
	Schedules   int64
	Points      int64
	MaxPoints   int
	Bound       int
	Complete    bool // every schedule within the bound was executed
	Deadlocks   int64
	Divergences int64
	TooLarge    bool // the scenario exceeded the point cap; only its default schedule was run
}

// Explore runs every schedule with at most bound preemptions. mk builds a
// fresh scenario for each execution: the thread bodies and a function called
// after the execution with the Exec (to judge it). stop may end the search.
func Explore(bound int, mk func() (bodies []func(), after func(e *Exec)), stop func() bool) Stats {
	return ExploreCapped(bound, 0, mk, stop)
}

// ExploreCapped is Explore, except that if the first (default) schedule has
// more than maxPoints scheduling points (maxPoints > 0) only that schedule is
// run and Stats.TooLarge is set.
func ExploreCapped(bound, maxPoints int, mk func() (bodies []func(), after func(e *Exec)), stop func() bool) Stats {
	st := Stats{Bound: bound, Complete: true}
	var explore func(prefix []int)
	explore = func(prefix []int) {
		if stop != nil && stop() {
			st.Complete = false
			return
		}
		bodies, after := mk()
		e := Run(prefix, bodies)
		st.Schedules++
		st.Points += int64(len(e.Points))
		if len(e.Points) > st.MaxPoints {
			st.MaxPoints = len(e.Points)
		}
		if e.Deadlock {
			st.Deadlocks++
		}
		if e.Diverged != "" {
			st.Divergences++
		}
		after(e)
		if maxPoints > 0 && len(prefix) == 0 && len(e.Points) > maxPoints {
			st.TooLarge = true
			return
		}
		choices := e.Choices()
		// preemptions before each point
		pre := 0
		preBefore := make([]int, len(e.Points))
		for i, p := range e.Points {
			preBefore[i] = pre
			if p.RunningEnabled && p.Chosen != 0 {
				pre++
			}
		}
		for i := len(prefix); i < len(e.Points); i++ {
			p := e.Points[i]
			for alt := 1; alt < len(p.Enabled); alt++ {
				cost := preBefore[i]
				if p.RunningEnabled {
					cost++
				}
				if cost > bound {
					continue
				}
				np := append(append(make([]int, 0, i+1), choices[:i]...), alt)
				explore(np)
				if stop != nil && stop() {
					st.Complete = false
					return
				}
			}
		}
	}
	explore(nil)
	return st
}
