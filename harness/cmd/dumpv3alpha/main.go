// Command dumpv3alpha prints the descriptor tree embedded in deps.dev/api/v3alpha.
package main

import (
	"os"

	pb "deps.dev/api/v3alpha"
	"verif/harness/ptree"
)

func main() { os.Stdout.Write(ptree.FromDescriptor(pb.File_api_proto).JSON()) }
