// Command verif runs one property check: verif <ID> quick|thorough, or
// verif <ID> --replay <file>.
package main

import (
	"encoding/json"
	"fmt"
	"os"

	"verif/harness/core"
	"verif/harness/props"
)

func main() {
	if len(os.Args) >= 2 && os.Args[1] == "--gen-tables" {
		which := ""
		if len(os.Args) > 2 {
			which = os.Args[2]
		}
		props.GenTables(which)
		return
	}
	if len(os.Args) < 3 {
		fmt.Println("usage: verif <ID> quick|thorough | verif <ID> --replay <file>")
		os.Exit(2)
	}
	id := os.Args[1]
	if id == "--gen-tables" {
		which := ""
		if len(os.Args) > 2 {
			which = os.Args[2]
		}
		props.GenTables(which)
		return
	}
	if id == "C04" && os.Args[2] == "--worker" {
		props.C04Worker(os.Args[3:])
		return
	}
	if id == "C05" && os.Args[2] == "--sched" {
		props.C05SchedWorker(os.Args[3:])
		return
	}
	if id == "C18" && os.Args[2] == "--sched" {
		props.C18SchedWorker(os.Args[3:])
		return
	}
	if os.Args[2] == "--race" {
		tier := "quick"
		if len(os.Args) > 3 {
			tier = os.Args[3]
		}
		props.RacePass(id, tier)
		return
	}
	if id == "C01" && os.Args[2] == "--history" {
		props.C01HistoryWorker(os.Args[3:])
		return
	}
	if id == "C15" && os.Args[2] == "--term" {
		props.C15TermWorker(os.Args[3:])
		return
	}
	if id == "C15" && os.Args[2] == "--triage" {
		props.C15Triage(os.Args[3], os.Args[4])
		return
	}
	if id == "C15" && os.Args[2] == "--term-one" {
		props.C15TermOneCmd(os.Args[3])
		return
	}
	if id == "C04" && os.Args[2] == "--one" {
		props.C04One(os.Args[3:])
		return
	}
	p, ok := props.Registry[id]
	if !ok {
		core.Harness("unknown property %q", id)
	}
	if os.Args[2] == "--replay" {
		if len(os.Args) < 4 {
			core.Harness("--replay needs a file")
		}
		b, err := os.ReadFile(os.Args[3])
		if err != nil {
			core.Harness("%v", err)
		}
		var rec struct {
			Witness string `json:"witness"`
		}
		if err := json.Unmarshal(b, &rec); err != nil {
			core.Harness("%v", err)
		}
		held, obs := p.Replay(rec.Witness)
		fmt.Printf("property=%s witness=%q\nobservation: %s\nheld=%v\n", id, rec.Witness, obs, held)
		if !held {
			fmt.Printf("VIOLATION property=%s replay=%s\n", id, os.Args[3])
			os.Exit(1)
		}
		return
	}
	tier := os.Args[2]
	if tier != "quick" && tier != "thorough" {
		core.Harness("tier must be quick or thorough")
	}
	p.Check(tier)
}
