// Command genoverlay writes the go build overlay used by the checks:
// genoverlay <repo> <outdir>. It regenerates everything from the repository's
// current sources and fails loudly when an anchor is missing.
package main

import (
	"encoding/json"
	"fmt"
	"os"
	"path/filepath"
	"strings"
)

func die(format string, a ...any) {
	fmt.Printf("HARNESS-ERROR genoverlay: "+format+"\n", a...)
	os.Exit(2)
}

func main() {
	if len(os.Args) != 3 {
		die("usage: genoverlay <repo> <outdir>")
	}
	repo, out := os.Args[1], os.Args[2]
	self, _ := os.Executable()
	tmpl := filepath.Join(filepath.Dir(filepath.Dir(filepath.Dir(self))), "overlay")
	if r := os.Getenv("VERIF_ROOT"); r != "" {
		tmpl = filepath.Join(r, "overlay")
	}
	os.MkdirAll(out, 0o755)
	replace := map[string]string{}
	put := func(target, name string, content []byte) {
		p := filepath.Join(out, name)
		old, err := os.ReadFile(p)
		if err != nil || string(old) != string(content) {
			if err := os.WriteFile(p, content, 0o644); err != nil {
				die("%v", err)
			}
		}
		replace[target] = p
	}
	read := func(p string) []byte {
		b, err := os.ReadFile(p)
		if err != nil {
			die("%v", err)
		}
		return b
	}
	// 1. api.go with sync -> vsync
	api := string(read(filepath.Join(repo, "util/resolve/api.go")))
	if strings.Count(api, "\t\"sync\"\n") != 1 {
		die("anchor `\"sync\"` import not found exactly once in util/resolve/api.go")
	}
	api = strings.Replace(api, "\t\"sync\"\n", "\tsync \"deps.dev/util/resolve/internal/vsync\"\n", 1)
	put(filepath.Join(repo, "util/resolve/api.go"), "api.go", []byte(api))
	// 2. virtual package + export files
	put(filepath.Join(repo, "util/resolve/internal/vsync/vsync.go"), "vsync.go", read(filepath.Join(tmpl, "vsync.go.txt")))
	put(filepath.Join(repo, "util/resolve/zz_verifexport.go"), "resolve_export.go", read(filepath.Join(tmpl, "resolve_export.go.txt")))
	put(filepath.Join(repo, "util/resolve/pypi/zz_verifexport.go"), "pypi_export.go", read(filepath.Join(tmpl, "pypi_export.go.txt")))
	put(filepath.Join(repo, "util/maven/zz_verifexport.go"), "maven_export.go", read(filepath.Join(tmpl, "maven_export.go.txt")))
	// 3. extra overlays (deliberate mutations for detection demos): VERIF_EXTRA_OVERLAY=json file {target: source}
	if extra := os.Getenv("VERIF_EXTRA_OVERLAY"); extra != "" {
		var m map[string]string
		if err := json.Unmarshal(read(extra), &m); err != nil {
			die("extra overlay: %v", err)
		}
		for k, v := range m {
			replace[k] = v
		}
	}
	b, _ := json.MarshalIndent(map[string]any{"Replace": replace}, "", " ")
	if err := os.WriteFile(filepath.Join(out, "overlay.json"), b, 0o644); err != nil {
		die("%v", err)
	}
}
