package main

import (
	"fmt"
	"os"
	"sort"
	"time"

	"verif/harness/props"
)

func main() {
	res := props.C04Profile(os.Args[1], 2000)
	type kv struct {
		k string
		v time.Duration
	}
	var l []kv
	for k, v := range res {
		l = append(l, kv{k, v})
	}
	sort.Slice(l, func(i, j int) bool { return l[i].v > l[j].v })
	for _, x := range l[:12] {
		fmt.Printf("%-45s %v per call\n", x.k, x.v/2000)
	}
}
