package main

import (
	"encoding/json"
	"fmt"
	"os"
	"os/exec"

	"verif/harness/ptree"
)

func main() {
	for _, v := range []string{"v3", "v3alpha"} {
		src, _ := os.ReadFile("/repo/api/" + v + "/api.proto")
		t, err := ptree.ParseProto(string(src))
		if err != nil {
			fmt.Println(v, "parse error:", err)
			continue
		}
		out, _ := exec.Command("/verif/.cache/bin/dump" + v).Output()
		var e ptree.Tree
		json.Unmarshal(out, &e)
		a, b := t.Flatten(), e.Flatten()
		n := 0
		for k, x := range a {
			if b[k] != x {
				n++
				if n < 10 {
					fmt.Printf("%s: proto %q embedded %q\n", k, x, b[k])
				}
			}
		}
		for k, x := range b {
			if _, ok := a[k]; !ok {
				n++
				if n < 10 {
					fmt.Printf("%s: only embedded %q\n", k, x)
				}
			}
		}
		fmt.Println(v, len(a), len(b), "differences:", n)
	}
}
