package main

import (
	"fmt"
	"os"

	"verif/harness/props"
	"verif/harness/univ"
)

func main() {
	u, err := univ.Decode(os.Args[1])
	if err != nil {
		panic(err)
	}
	fmt.Println(props.PyPIResolveDump(u, [2]string{os.Args[2], os.Args[3]}))
}
