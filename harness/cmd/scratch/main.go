package main

import (
	"fmt"
	"time"

	"verif/harness/props"
	"verif/harness/univ"
)

func main() {
	for _, sp := range []*univ.Space{univ.NPMSpace(), univ.MavenSpace(), univ.PyPISpace()} {
		n := 0
		univ.Enumerate(sp.Slots, 2, func(p []univ.Pick) {
			u, ok := sp.Build(p)
			if !ok || len(p) < 2 || len(u.Vers[0].Reqs) == 0 {
				return
			}
			n++
			if n%300 != 1 {
				return
			}
			t0 := time.Now()
			st := props.C05SchedProbe(u, 2)
			fmt.Printf("%s %s: schedules=%d points=%d maxpoints=%d complete=%v  %v\n", sp.Name, u.Encode()[:0], st.Schedules, st.Points, st.MaxPoints, st.Complete, time.Since(t0))
		})
		fmt.Println(sp.Name, "E3 candidate universes dev<=2:", n)
	}
}
