package main

import (
	"fmt"
	"os"

	"deps.dev/util/semver"
	"verif/harness/dom"
)

func main() {
	sys, _ := dom.SysByName(os.Args[1])
	for _, a := range os.Args[2:] {
		v, err := sys.Parse(a)
		if err != nil {
			fmt.Printf("%q: err %v\n", a, err)
			continue
		}
		fmt.Printf("%q: canon=%q pre=%v\n", a, v.Canon(true), v.IsPrerelease())
		for _, b := range os.Args[2:] {
			fmt.Printf("   cmp(%s,%s)=%d\n", a, b, sys.Compare(a, b))
		}
	}
	_ = semver.NPM
}
