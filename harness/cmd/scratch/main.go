package main

func main() {}
