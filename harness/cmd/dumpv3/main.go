// Command dumpv3 prints the descriptor tree embedded in deps.dev/api/v3.
package main

import (
	"os"

	pb "deps.dev/api/v3"
	"verif/harness/ptree"
)

func main() { os.Stdout.Write(ptree.FromDescriptor(pb.File_api_proto).JSON()) }
