// Command dumpv3 prints the descriptor tree embedded in deps.dev/api/v3, or with the argument "grpc" what the
// generated gRPC bindings do when invoked.
package main

import (
	"os"

	pb "deps.dev/api/v3"
	"google.golang.org/grpc"
	"verif/harness/grpcprobe"
	"verif/harness/ptree"
)

func main() {
	if len(os.Args) > 1 && os.Args[1] == "grpc" {
		os.Stdout.Write(grpcprobe.Probe(pb.Insights_ServiceDesc, func(cc grpc.ClientConnInterface) any { return pb.NewInsightsClient(cc) }, pb.UnimplementedInsightsServer{}))
		return
	}
	os.Stdout.Write(ptree.FromDescriptor(pb.File_api_proto).JSON())
}
