// Package oracle runs the ecosystems' own implementations (node-semver,
// packaging, the Rust semver crate, Maven's ComparableVersion/VersionRange,
// golang.org/x/mod/semver) and the transcribed Gem::Version / NuGet models on
// a domain, and stores/loads the answers as committed reference tables.
package oracle

import (
	"bufio"
	"bytes"
	"compress/gzip"
	"crypto/sha256"
	"encoding/hex"
	"encoding/json"
	"fmt"
	"os"
	"os/exec"
	"path/filepath"
	"sort"
	"strings"

	"verif/harness/core"
	"verif/harness/refmodel"
)

// VersionTable is the reference's view of a version domain.
type VersionTable struct {
	Tool      string    `json:"tool"`
	Domain    string    `json:"domain_sha256"`
	Strings   []string  `json:"-"`
	Norm      []*string `json:"norm"`           // normalised form, nil if the reference rejects the string
	Rank      []int     `json:"rank"`           // equivalence-class id in the reference's order, -1 if rejected
	AltTool   string    `json:"alt_tool,omitempty"`
	AltNorm   []*string `json:"alt_norm,omitempty"` // a second release of the reference (PyPI: packaging 21.3)
	AltRank   []int     `json:"alt_rank,omitempty"`
	index     map[string]int
}

// MatchTable is the reference's view of a (requirement, candidate) domain.
type MatchTable struct {
	Tool     string   `json:"tool"`
	Domain   string   `json:"domain_sha256"`
	ReqValid []bool   `json:"reqvalid"`
	Sat      []string `json:"sat"` // per requirement: one char per candidate ('1','0'); empty if the requirement is invalid
	AltTool  string   `json:"alt_tool,omitempty"`
	AltValid []bool   `json:"alt_reqvalid,omitempty"`
	AltSat   []string `json:"alt_sat,omitempty"`
}

// DomainHash identifies a domain (order matters).
func DomainHash(parts ...[]string) string {
	h := sha256.New()
	for _, p := range parts {
		for _, s := range p {
			h.Write([]byte(s))
			h.Write([]byte{0})
		}
		h.Write([]byte{1})
	}
	return hex.EncodeToString(h.Sum(nil))
}

func tablePath(name string) string { return filepath.Join(core.Root, "oracle", "tables", name+".json") }

// Save writes a table.
func Save(name string, t any) error {
	b, err := json.Marshal(t)
	if err != nil {
		return err
	}
	os.MkdirAll(filepath.Dir(tablePath(name)), 0o755)
	return os.WriteFile(tablePath(name), append(b, '\n'), 0o644)
}

// LoadVersionTable reads a committed table and binds it to the domain strings (hash must match).
func LoadVersionTable(name string, strs []string) (*VersionTable, error) {
	b, err := os.ReadFile(tablePath(name))
	if err != nil {
		return nil, err
	}
	var t VersionTable
	if err := json.Unmarshal(b, &t); err != nil {
		return nil, err
	}
	if t.Domain != DomainHash(strs) || len(t.Rank) != len(strs) {
		return nil, fmt.Errorf("reference table %s was generated for another domain (regenerate with ./check --gen-tables)", name)
	}
	t.Strings = strs
	return &t, nil
}

// LoadMatchTable reads a committed match table.
func LoadMatchTable(name string, reqs, cands []string) (*MatchTable, error) {
	b, err := os.ReadFile(tablePath(name))
	if err != nil {
		return nil, err
	}
	var t MatchTable
	if err := json.Unmarshal(b, &t); err != nil {
		return nil, err
	}
	if t.Domain != DomainHash(reqs, cands) || len(t.Sat) != len(reqs) {
		return nil, fmt.Errorf("reference table %s was generated for another domain (regenerate with ./check --gen-tables)", name)
	}
	return &t, nil
}

func oracleDir() string { return filepath.Join(core.Root, "oracle") }

type jsonAnswer struct {
	Tool     string    `json:"tool"`
	Norm     []*string `json:"norm"`
	Rank     []int     `json:"rank"`
	ReqValid []bool    `json:"reqvalid"`
	Sat      []string  `json:"sat"`
}

func runJSON(cmd *exec.Cmd, query any) (*jsonAnswer, error) {
	in, _ := json.Marshal(query)
	cmd.Stdin = bytes.NewReader(in)
	var stderr bytes.Buffer
	cmd.Stderr = &stderr
	out, err := cmd.Output()
	if err != nil {
		return nil, fmt.Errorf("%v: %s", err, firstLine(stderr.String()))
	}
	var a jsonAnswer
	if err := json.Unmarshal(out, &a); err != nil {
		return nil, err
	}
	return &a, nil
}

func firstLine(s string) string {
	if i := strings.IndexByte(s, '\n'); i >= 0 {
		return s[:i]
	}
	return s
}

// Available reports whether the reference tool for a system can run here.
func Available(sys string) bool {
	switch sys {
	case "NPM":
		_, err := exec.LookPath("node")
		return err == nil
	case "PyPI":
		_, err := exec.LookPath("python3-vt")
		return err == nil
	case "Cargo":
		_, err := os.Stat(rustBin())
		return err == nil
	case "Maven":
		_, err := os.Stat(filepath.Join(core.Root, ".cache", "java", "MavenOracle.class"))
		return err == nil
	}
	return true // Go (x/mod), RubyGems, NuGet: in-process
}

func rustBin() string { return filepath.Join(core.Root, ".cache", "rust", "release", "semver_oracle") }

func javaCmd() *exec.Cmd {
	cp := filepath.Join(core.Root, ".cache", "java") + ":/usr/share/maven/lib/maven-artifact-3.x.jar:/usr/share/maven/lib/commons-lang3.jar"
	return exec.Command("java", "-cp", cp, "MavenOracle")
}

// lineOracle runs a line-protocol driver on the given queries and returns one answer line per query.
func lineOracle(cmd *exec.Cmd, queries []string) ([]string, error) {
	cmd.Stdin = strings.NewReader(strings.Join(queries, "\n") + "\n")
	var stderr bytes.Buffer
	cmd.Stderr = &stderr
	out, err := cmd.Output()
	if err != nil {
		return nil, fmt.Errorf("%v: %s", err, firstLine(stderr.String()))
	}
	var lines []string
	sc := bufio.NewScanner(bytes.NewReader(out))
	sc.Buffer(make([]byte, 1<<20), 1<<26)
	for sc.Scan() {
		lines = append(lines, sc.Text())
	}
	if len(lines) != len(queries) {
		return nil, fmt.Errorf("driver answered %d lines for %d queries", len(lines), len(queries))
	}
	return lines, nil
}

// rankFromCompare sorts the valid strings with cmp and assigns class ids.
func rankFromCompare(strs []string, valid []bool, cmp func(a, b string) int) []int {
	var idx []int
	for i, ok := range valid {
		if ok {
			idx = append(idx, i)
		}
	}
	sort.SliceStable(idx, func(x, y int) bool { return cmp(strs[idx[x]], strs[idx[y]]) < 0 })
	rank := make([]int, len(strs))
	for i := range rank {
		rank[i] = -1
	}
	c := 0
	for k, i := range idx {
		if k > 0 && cmp(strs[idx[k-1]], strs[i]) != 0 {
			c++
		}
		rank[i] = c
	}
	return rank
}

// BuildVersionTable asks the live reference of sys about the domain.
func BuildVersionTable(sys string, strs []string) (*VersionTable, error) {
	t := &VersionTable{Domain: DomainHash(strs), Strings: strs}
	switch sys {
	case "NPM":
		a, err := runJSON(exec.Command("node", filepath.Join(oracleDir(), "node", "semver_oracle.js")), map[string]any{"versions": strs})
		if err != nil {
			return nil, err
		}
		t.Tool, t.Norm, t.Rank = a.Tool, a.Norm, a.Rank
	case "PyPI":
		a, err := runJSON(exec.Command("python3-vt", filepath.Join(oracleDir(), "python", "pep440_oracle.py")), map[string]any{"versions": strs})
		if err != nil {
			return nil, err
		}
		t.Tool, t.Norm, t.Rank = a.Tool, a.Norm, a.Rank
		if b, err := runJSON(exec.Command("python3", filepath.Join(oracleDir(), "python", "pep440_oracle.py")), map[string]any{"versions": strs}); err == nil {
			t.AltTool, t.AltNorm, t.AltRank = b.Tool, b.Norm, b.Rank
		}
	case "Cargo":
		qs := make([]string, len(strs))
		for i, s := range strs {
			qs[i] = "v\t" + s
		}
		ans, err := lineOracle(exec.Command(rustBin()), qs)
		if err != nil {
			return nil, err
		}
		valid := make([]bool, len(strs))
		t.Norm = make([]*string, len(strs))
		for i, a := range ans {
			if strings.HasPrefix(a, "1\t") {
				valid[i] = true
				n := a[2:]
				t.Norm[i] = &n
			}
		}
		// order: ask the crate for adjacent comparisons during a merge sort would need interaction; instead
		// compare all needed pairs in one batch: sort keys by the crate via an insertion into a sorted list
		// is O(n^2) queries; use the crate's total order through a one-shot "c" query per pair of a sort network:
		// simpler and still exact: query every pair once (n <= a few thousand).
		var vi []int
		for i, ok := range valid {
			if ok {
				vi = append(vi, i)
			}
		}
		var cq []string
		for _, i := range vi {
			for _, j := range vi {
				cq = append(cq, "c\t"+strs[i]+"\t"+strs[j])
			}
		}
		cans, err := lineOracle(exec.Command(rustBin()), cq)
		if err != nil {
			return nil, err
		}
		pos := map[int]int{}
		for k, i := range vi {
			pos[i] = k
		}
		n := len(vi)
		cmp := func(a, b int) int {
			switch cans[pos[a]*n+pos[b]] {
			case "-1":
				return -1
			case "1":
				return 1
			}
			return 0
		}
		idx := append([]int(nil), vi...)
		sort.SliceStable(idx, func(x, y int) bool { return cmp(idx[x], idx[y]) < 0 })
		t.Rank = make([]int, len(strs))
		for i := range t.Rank {
			t.Rank[i] = -1
		}
		c := 0
		for k, i := range idx {
			if k > 0 && cmp(idx[k-1], i) != 0 {
				c++
			}
			t.Rank[i] = c
		}
		// the crate's answers must themselves be consistent with the ranking (it is the reference: verify, don't trust the sort)
		for _, i := range vi {
			for _, j := range vi {
				want := 0
				if t.Rank[i] < t.Rank[j] {
					want = -1
				} else if t.Rank[i] > t.Rank[j] {
					want = 1
				}
				if cmp(i, j) != want {
					return nil, fmt.Errorf("the semver crate's own order is not a total preorder on %q vs %q", strs[i], strs[j])
				}
			}
		}
		t.Tool = "semver crate 1.0.28 (cmp_precedence)"
	case "Maven":
		// canonical forms, then all pairs (the reference is only trusted on the §6.4 domain, where it is transitive)
		qs := make([]string, len(strs))
		for i, s := range strs {
			qs[i] = "canon\t" + s
		}
		canon, err := lineOracle(javaCmd(), qs)
		if err != nil {
			return nil, err
		}
		t.Norm = make([]*string, len(strs))
		valid := make([]bool, len(strs))
		for i := range strs {
			c := canon[i]
			t.Norm[i] = &c
			valid[i] = true
		}
		var cq []string
		for _, a := range strs {
			for _, b := range strs {
				cq = append(cq, "cmp\t"+a+"\t"+b)
			}
		}
		cans, err := lineOracle(javaCmd(), cq)
		if err != nil {
			return nil, err
		}
		n := len(strs)
		cmp := func(a, b int) int {
			switch cans[a*n+b] {
			case "-1":
				return -1
			case "1":
				return 1
			}
			return 0
		}
		idx := make([]int, n)
		for i := range idx {
			idx[i] = i
		}
		sort.SliceStable(idx, func(x, y int) bool { return cmp(idx[x], idx[y]) < 0 })
		t.Rank = make([]int, n)
		c := 0
		for k, i := range idx {
			if k > 0 && cmp(idx[k-1], i) != 0 {
				c++
			}
			t.Rank[i] = c
		}
		for i := 0; i < n; i++ {
			for j := 0; j < n; j++ {
				want := 0
				if t.Rank[i] < t.Rank[j] {
					want = -1
				} else if t.Rank[i] > t.Rank[j] {
					want = 1
				}
				if cmp(i, j) != want {
					return nil, fmt.Errorf("ComparableVersion is not a total preorder on the domain: %q vs %q", strs[i], strs[j])
				}
			}
		}
		t.Tool = "Maven 3.8.7 ComparableVersion"
	case "Go":
		valid := make([]bool, len(strs))
		t.Norm = make([]*string, len(strs))
		for i, s := range strs {
			if refmodel.GoValid(s) {
				valid[i] = true
				c := refmodel.GoCanonical(s)
				t.Norm[i] = &c
			}
		}
		t.Rank = rankFromCompare(strs, valid, refmodel.GoCompare)
		t.Tool = "golang.org/x/mod/semver v0.22.0"
	case "RubyGems":
		valid := make([]bool, len(strs))
		t.Norm = make([]*string, len(strs))
		for i, s := range strs {
			if refmodel.GemValid(s) {
				if _, ok := refmodel.GemCompare(s, s); ok {
					valid[i] = true
					c := refmodel.GemNormal(s)
					t.Norm[i] = &c
				}
			}
		}
		t.Rank = rankFromCompare(strs, valid, func(a, b string) int { c, _ := refmodel.GemCompare(a, b); return c })
		t.Tool = "Gem::Version (transcribed from rubygems/version.rb)"
	case "NuGet":
		valid := make([]bool, len(strs))
		t.Norm = make([]*string, len(strs))
		for i, s := range strs {
			if refmodel.NuGetValid(s) {
				valid[i] = true
				c := refmodel.NuGetNormal(s)
				t.Norm[i] = &c
			}
		}
		t.Rank = rankFromCompare(strs, valid, refmodel.NuGetCompare)
		t.Tool = "NuGet.Versioning VersionComparer.Default (transcribed)"
	default:
		return nil, fmt.Errorf("no reference for %s", sys)
	}
	return t, nil
}

// BuildMatchTable asks the live reference of sys whether each candidate satisfies each requirement.
func BuildMatchTable(sys string, reqs, cands []string) (*MatchTable, error) {
	t := &MatchTable{Domain: DomainHash(reqs, cands)}
	switch sys {
	case "NPM":
		a, err := runJSON(exec.Command("node", filepath.Join(oracleDir(), "node", "semver_oracle.js")), map[string]any{"requirements": reqs, "candidates": cands})
		if err != nil {
			return nil, err
		}
		t.Tool, t.ReqValid, t.Sat = a.Tool, a.ReqValid, a.Sat
	case "PyPI":
		a, err := runJSON(exec.Command("python3-vt", filepath.Join(oracleDir(), "python", "pep440_oracle.py")), map[string]any{"requirements": reqs, "candidates": cands})
		if err != nil {
			return nil, err
		}
		t.Tool, t.ReqValid, t.Sat = a.Tool, a.ReqValid, a.Sat
		if b, err := runJSON(exec.Command("python3", filepath.Join(oracleDir(), "python", "pep440_oracle.py")), map[string]any{"requirements": reqs, "candidates": cands}); err == nil {
			t.AltTool, t.AltValid, t.AltSat = b.Tool, b.ReqValid, b.Sat
		}
	case "Cargo":
		var qs []string
		for _, r := range reqs {
			qs = append(qs, "r\t"+r)
		}
		rv, err := lineOracle(exec.Command(rustBin()), qs)
		if err != nil {
			return nil, err
		}
		t.ReqValid = make([]bool, len(reqs))
		var mq []string
		for i, r := range reqs {
			t.ReqValid[i] = rv[i] == "1"
			if t.ReqValid[i] {
				for _, c := range cands {
					mq = append(mq, "m\t"+r+"\t"+c)
				}
			}
		}
		ma, err := lineOracle(exec.Command(rustBin()), mq)
		if err != nil {
			return nil, err
		}
		t.Sat = make([]string, len(reqs))
		k := 0
		for i := range reqs {
			if !t.ReqValid[i] {
				continue
			}
			var sb strings.Builder
			for range cands {
				if ma[k] == "1" {
					sb.WriteByte('1')
				} else {
					sb.WriteByte('0')
				}
				k++
			}
			t.Sat[i] = sb.String()
		}
		t.Tool = "semver crate 1.0.28 VersionReq::matches"
	case "Maven":
		var qs []string
		for _, r := range reqs {
			for _, c := range cands {
				qs = append(qs, "range\t"+r+"\t"+c)
			}
		}
		ans, err := lineOracle(javaCmd(), qs)
		if err != nil {
			return nil, err
		}
		t.ReqValid = make([]bool, len(reqs))
		t.Sat = make([]string, len(reqs))
		k := 0
		for i := range reqs {
			var sb strings.Builder
			ok := true
			for range cands {
				switch ans[k] {
				case "1":
					sb.WriteByte('1')
				case "0":
					sb.WriteByte('0')
				default:
					ok = false
				}
				k++
			}
			t.ReqValid[i] = ok
			if ok {
				t.Sat[i] = sb.String()
			}
		}
		t.Tool = "Maven 3.8.7 VersionRange.containsVersion"
	default:
		return nil, fmt.Errorf("no matching reference for %s", sys)
	}
	return t, nil
}

// PythonQuery sends a query to the packaging driver: python3-vt carries packaging 26.x, the system python3 pip's
// vendored 21.3 (alt).
func PythonQuery(alt bool, query map[string]any) (map[string]json.RawMessage, error) {
	py := "python3-vt"
	if alt {
		py = "python3"
	}
	in, _ := json.Marshal(query)
	cmd := exec.Command(py, filepath.Join(oracleDir(), "python", "pep440_oracle.py"))
	cmd.Stdin = bytes.NewReader(in)
	var stderr bytes.Buffer
	cmd.Stderr = &stderr
	out, err := cmd.Output()
	if err != nil {
		return nil, fmt.Errorf("%s: %v: %s", py, err, firstLine(stderr.String()))
	}
	var m map[string]json.RawMessage
	if err := json.Unmarshal(out, &m); err != nil {
		return nil, err
	}
	return m, nil
}

// StringTable is a committed reference answer per domain string.
type StringTable struct {
	Tool    string   `json:"tool"`
	Domain  string   `json:"domain_sha256"`
	Rows    []string `json:"rows"`
	AltTool string   `json:"alt_tool,omitempty"`
	AltRows []string `json:"alt_rows,omitempty"`
}

func stringTablePath(name string) string {
	return filepath.Join(core.Root, "oracle", "tables", name+".json.gz")
}

// SaveStringTable writes a gzip-compressed table.
func SaveStringTable(name string, t *StringTable) error {
	var buf bytes.Buffer
	zw, _ := gzip.NewWriterLevel(&buf, gzip.BestCompression)
	if err := json.NewEncoder(zw).Encode(t); err != nil {
		return err
	}
	zw.Close()
	return os.WriteFile(stringTablePath(name), buf.Bytes(), 0o644)
}

// LoadStringTable reads a table and checks that it was made for the domain.
func LoadStringTable(name string, domain ...[]string) (*StringTable, error) {
	b, err := os.ReadFile(stringTablePath(name))
	if err != nil {
		return nil, err
	}
	zr, err := gzip.NewReader(bytes.NewReader(b))
	if err != nil {
		return nil, err
	}
	var t StringTable
	if err := json.NewDecoder(zr).Decode(&t); err != nil {
		return nil, err
	}
	if t.Domain != DomainHash(domain...) {
		return nil, fmt.Errorf("reference table %s was generated for a different domain; run ./check --gen-tables", name)
	}
	return &t, nil
}
