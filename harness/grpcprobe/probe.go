// Package grpcprobe exercises generated gRPC bindings dynamically: every handler of a ServiceDesc is invoked with an
// interceptor that records the method name the handler announces and with a server whose methods report their own
// name; every client method is invoked over a connection that records the method name it asks for.
package grpcprobe

import (
	"context"
	"encoding/json"
	"fmt"
	"reflect"
	"sort"
	"strings"

	"google.golang.org/grpc"
)

// Row is what one RPC's generated code does.
type Row struct {
	Method          string `json:"method"`            // MethodName in the ServiceDesc
	HandlerAnnounce string `json:"handler_announces"` // info.FullMethod seen by a unary interceptor
	HandlerDirect   string `json:"handler_direct"`    // server method reached without an interceptor
	HandlerViaIcpt  string `json:"handler_via_icpt"`  // server method reached through the interceptor's handler
	ClientInvokes   string `json:"client_invokes"`    // method string the client stub passes to Invoke
}

type conn struct{ last string }

func (c *conn) Invoke(ctx context.Context, method string, args, reply any, opts ...grpc.CallOption) error {
	c.last = method
	return nil
}

func (c *conn) NewStream(ctx context.Context, desc *grpc.StreamDesc, method string, opts ...grpc.CallOption) (grpc.ClientStream, error) {
	c.last = method
	return nil, fmt.Errorf("no streams")
}

// notImplemented extracts X from the Unimplemented server's "method X not implemented".
func notImplemented(err error) string {
	if err == nil {
		return "<no error>"
	}
	s := err.Error()
	i := strings.Index(s, "method ")
	j := strings.Index(s, " not implemented")
	if i < 0 || j < i {
		return s
	}
	return s[i+len("method ") : j]
}

// Probe returns one row per unary method. newClient must wrap the connection in the generated client; server is
// the generated Unimplemented server.
func Probe(desc grpc.ServiceDesc, newClient func(cc grpc.ClientConnInterface) any, server any) []byte {
	var rows []Row
	for _, m := range desc.Methods {
		r := Row{Method: m.MethodName}
		dec := func(any) error { return nil }
		_, err := m.Handler(server, context.Background(), dec, nil)
		r.HandlerDirect = notImplemented(err)
		_, err = m.Handler(server, context.Background(), dec, func(ctx context.Context, req any, info *grpc.UnaryServerInfo, handler grpc.UnaryHandler) (any, error) {
			r.HandlerAnnounce = info.FullMethod
			return handler(ctx, req)
		})
		r.HandlerViaIcpt = notImplemented(err)
		rows = append(rows, r)
	}
	cc := &conn{}
	cv := reflect.ValueOf(newClient(cc))
	ct := cv.Type()
	for i := 0; i < ct.NumMethod(); i++ {
		mt := ct.Method(i)
		ft := mt.Type // receiver first
		if ft.NumIn() < 3 || ft.In(2).Kind() != reflect.Ptr {
			continue
		}
		cc.last = ""
		cv.Method(i).Call([]reflect.Value{reflect.ValueOf(context.Background()), reflect.New(ft.In(2).Elem())})
		found := false
		for k := range rows {
			if rows[k].Method == mt.Name {
				rows[k].ClientInvokes = cc.last
				found = true
			}
		}
		if !found {
			rows = append(rows, Row{Method: mt.Name, ClientInvokes: cc.last})
		}
	}
	sort.Slice(rows, func(i, j int) bool { return rows[i].Method < rows[j].Method })
	b, _ := json.Marshal(map[string]any{"service": desc.ServiceName, "rows": rows})
	return b
}
