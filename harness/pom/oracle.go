package pom

import (
	"bufio"
	"bytes"
	"compress/gzip"
	"crypto/sha256"
	"encoding/hex"
	"encoding/json"
	"fmt"
	"os"
	"os/exec"
	"path/filepath"
	"strings"

	"deps.dev/util/maven"
	"verif/harness/core"
)

// MavenAvailable reports whether the Java driver was built by setup.
func MavenAvailable() bool {
	_, err := os.Stat(filepath.Join(core.Root, ".cache", "java", "PomOracle.class"))
	if err != nil {
		return false
	}
	_, err = exec.LookPath("java")
	return err == nil
}

const mavenTool = "Maven 3.8.7 DefaultModelBuilder (validation level MINIMAL)"

// MavenBatch builds every lineage with Maven's model builder under the library's fixed JDK and OS settings.
func MavenBatch(ls []Lineage) ([]Result, error) {
	jars, _ := filepath.Glob("/usr/share/maven/lib/*.jar")
	cp := filepath.Join(core.Root, ".cache", "java") + ":" + strings.Join(jars, ":")
	os_ := maven.OSProfileActivation
	cmd := exec.Command("java", "-Xss16m", "-Dos.name="+string(os_.Name), "-Dos.arch="+string(os_.Arch), "-Dos.version="+string(os_.Version), "-cp", cp, "PomOracle", maven.JDKProfileActivation)
	var in bytes.Buffer
	for i, l := range ls {
		fmt.Fprintf(&in, "CASE\t%d\n", i)
		for _, f := range l.Files {
			x := f.XML()
			if strings.ContainsAny(x, "\n\r") {
				return nil, fmt.Errorf("lineage %d: rendered POM contains a newline", i)
			}
			fmt.Fprintf(&in, "FILE\t%s\t%s\n", CoordKey(f.Coord), x)
		}
		fmt.Fprintf(&in, "BUILD\t%s\n", CoordKey(l.Files[0].Coord))
	}
	cmd.Stdin = &in
	var errb bytes.Buffer
	cmd.Stderr = &errb
	out, err := cmd.Output()
	if err != nil {
		return nil, fmt.Errorf("java PomOracle: %v: %s", err, firstLine(errb.String()))
	}
	res := make([]Result, 0, len(ls))
	sc := bufio.NewScanner(bytes.NewReader(out))
	sc.Buffer(make([]byte, 1<<20), 1<<26)
	for sc.Scan() {
		f := strings.Split(sc.Text(), "\t")
		if len(f) < 3 || f[0] != fmt.Sprint(len(res)) {
			return nil, fmt.Errorf("java PomOracle: unexpected line %q", firstLine(sc.Text()))
		}
		if f[1] == "ERR" {
			res = append(res, Result{Err: f[2]})
			continue
		}
		for len(f) < 4 {
			f = append(f, "")
		}
		res = append(res, Result{Deps: parseJavaDeps(f[2], false), Mgmt: parseJavaDeps(f[3], true)})
	}
	if len(res) != len(ls) {
		return nil, fmt.Errorf("java PomOracle: %d answers for %d cases", len(res), len(ls))
	}
	return res, nil
}

func parseJavaDeps(s string, managed bool) []string {
	out := []string{}
	if s == "" {
		return out
	}
	for _, e := range strings.Split(s, "\x1e") {
		f := strings.Split(e, "\x1f")
		for len(f) < 8 {
			f = append(f, "")
		}
		var ex []string
		if f[7] != "" {
			ex = strings.Split(f[7], "|")
		}
		out = append(out, Norm(f[0], f[1], f[2], f[3], f[4], f[5], f[6], ex, managed))
	}
	return out
}

func firstLine(s string) string {
	if i := strings.IndexByte(s, '\n'); i >= 0 {
		s = s[:i]
	}
	if len(s) > 300 {
		s = s[:300]
	}
	return s
}

// Table is the committed reference for a domain.
type Table struct {
	Tool    string   `json:"tool"`
	Domain  string   `json:"domain_sha256"`
	Results []Result `json:"results"`
}

func DomainHash(ls []Lineage) string {
	h := sha256.New()
	for _, l := range ls {
		h.Write([]byte(l.JSON()))
		h.Write([]byte{0})
	}
	return hex.EncodeToString(h.Sum(nil))
}

func tablePath(name string) string {
	return filepath.Join(core.Root, "oracle", "tables", name+".json.gz")
}

func SaveTable(name string, ls []Lineage, rs []Result) error {
	t := Table{Tool: mavenTool, Domain: DomainHash(ls), Results: rs}
	var buf bytes.Buffer
	zw, _ := gzip.NewWriterLevel(&buf, gzip.BestCompression)
	if err := json.NewEncoder(zw).Encode(t); err != nil {
		return err
	}
	zw.Close()
	return os.WriteFile(tablePath(name), buf.Bytes(), 0o644)
}

func LoadTable(name string, ls []Lineage) (*Table, error) {
	b, err := os.ReadFile(tablePath(name))
	if err != nil {
		return nil, err
	}
	zr, err := gzip.NewReader(bytes.NewReader(b))
	if err != nil {
		return nil, err
	}
	var t Table
	if err := json.NewDecoder(zr).Decode(&t); err != nil {
		return nil, err
	}
	if t.Domain != DomainHash(ls) || len(t.Results) != len(ls) {
		return nil, fmt.Errorf("reference table %s was generated for a different domain; run ./check --gen-tables C15", name)
	}
	return &t, nil
}
