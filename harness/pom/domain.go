package pom

import (
	"fmt"
)

// A family is a base lineage plus slots; every set of at most Bound deviations
// (one option of one slot each, slots applied in slot order) is one lineage.
type Family struct {
	Name  string
	Base  func() Lineage
	Slots []FSlot
	Quick int // deviation bound, quick tier
	Full  int // deviation bound, thorough tier
}

// FSlot is one place to deviate; every option edits the lineage.
type FSlot struct {
	Name string
	Opts []FOpt
}

type FOpt struct {
	Name  string
	Apply func(l *Lineage)
	Heavy bool
}

// Enumerate calls f with every lineage of the family whose deviations cost at most bound, and a label naming them.
// Options that exercise a recorded divergence from Maven cost two deviations, so that they are combined with
// fewer other deviations.
func (fa Family) Enumerate(bound int, f func(label string, l Lineage)) {
	type pick struct{ slot, opt int }
	var picks []pick
	var rec func(start, left int)
	rec = func(start, left int) {
		l := fa.Base()
		label := fa.Name
		for _, p := range picks {
			o := fa.Slots[p.slot].Opts[p.opt]
			o.Apply(&l)
			label += " +" + fa.Slots[p.slot].Name + "=" + o.Name
		}
		f(label, l)
		for s := start; s < len(fa.Slots); s++ {
			for o, op := range fa.Slots[s].Opts {
				c := 1
				if op.Heavy {
					c = 2
				}
				if c > left {
					continue
				}
				picks = append(picks, pick{s, o})
				rec(s+1, left-c)
				picks = picks[:len(picks)-1]
			}
		}
	}
	rec(0, bound)
}

// file indices of the fixed skeleton
const (
	fP = iota
	fA1
	fA2
	fA3
	fA4
	fB1
	fB2
	fB3
	fBP
)

func coord(a, v string) [3]string { return [3]string{"g", a, v} }

func parentOf(c [3]string) *[3]string { return &c }

// skeleton: p:1 -> a1:2 -> a2:3 -> a3:4 -> a4:5 (all parents packaging pom), BOMs b1:1, b2:1, b3:1 and bp:7 (unparented
// until a slot links them). Files nobody references are harmless.
func skeleton() Lineage {
	l := Lineage{Files: make([]POM, 9)}
	l.Files[fP] = POM{Coord: coord("p", "1"), Parent: parentOf(coord("a1", "2"))}
	l.Files[fA1] = POM{Coord: coord("a1", "2"), Packaging: "pom", Parent: parentOf(coord("a2", "3"))}
	l.Files[fA2] = POM{Coord: coord("a2", "3"), Packaging: "pom"}
	l.Files[fA3] = POM{Coord: coord("a3", "4"), Packaging: "pom"}
	l.Files[fA4] = POM{Coord: [3]string{"h", "a4", "5"}, Packaging: "pom"}
	l.Files[fB1] = POM{Coord: coord("b1", "1"), Packaging: "pom"}
	l.Files[fB2] = POM{Coord: coord("b2", "1"), Packaging: "pom"}
	l.Files[fB3] = POM{Coord: coord("b3", "1"), Packaging: "pom"}
	l.Files[fBP] = POM{Coord: coord("bp", "7"), Packaging: "pom"}
	return l
}

func opt(name string, f func(l *Lineage)) FOpt { return FOpt{Name: name, Apply: f} }

// heavy marks an option that exercises a recorded divergence.
func heavy(o FOpt) FOpt { o.Heavy = true; return o }

func activeProfile(id string) Profile   { return Profile{ID: id, Act: Activation{JDK: "[1.8,)"}} }
func inactiveProfile(id string) Profile { return Profile{ID: id, Act: Activation{JDK: "1.7"}} }

// profileAt returns the profile with the id in the file, adding it (with the given activation) if absent.
func profileAt(l *Lineage, file int, id string, mk func(string) Profile) *Profile {
	ps := l.Files[file].Profiles
	for i := range ps {
		if ps[i].ID == id {
			return &l.Files[file].Profiles[i]
		}
	}
	l.Files[file].Profiles = append(ps, mk(id))
	return &l.Files[file].Profiles[len(ps)]
}

var fileNames = map[int]string{fP: "p", fA1: "a1", fA2: "a2", fA3: "a3", fA4: "a4", fB1: "b1", fB2: "b2", fB3: "b3", fBP: "bp"}

// ---------------------------------------------------------------------------------------------
// family "props": which definition of a property wins, chained properties, built-ins, inheritance of coordinates

func propsFamily() Family {
	fa := Family{Name: "props", Quick: 2, Full: 3}
	fa.Base = func() Lineage {
		l := skeleton()
		l.Files[fP].Deps = []Dep{{G: "g", A: "d", V: "${v}"}}
		l.Files[fA2].Props = []KV{{"v", "A2"}, {"w", "W"}}
		return l
	}
	// the expression in the dependency's version
	exprs := []string{"${w}", "${project.version}", "${version}", "${pom.version}", "${project.parent.version}", "${parent.version}", "${project.groupId}", "${groupId}",
		"${project.parent.groupId}", "${project.artifactId}", "${artifactId}", "${v}-${w}", "x${v}y", "${u}", "${v}${u}", "1", "${project.parent.artifactId}", "$${v}", "${v", "${}"}
	var eo []FOpt
	for _, e := range exprs {
		e := e
		mk := opt
		switch e {
		case "${}", "${artifactId}", "${project.artifactId}", "${project.parent.artifactId}", "${u}", "${v}${u}":
			mk = func(name string, f func(l *Lineage)) FOpt { return heavy(opt(name, f)) }
		}
		eo = append(eo, mk(e, func(l *Lineage) {
			for f := range l.Files {
				for i := range l.Files[f].Deps {
					if l.Files[f].Deps[i].A == "d" {
						l.Files[f].Deps[i].V = e
					}
				}
			}
		}))
	}
	fa.Slots = append(fa.Slots, FSlot{"expr", eo})
	// where the dependency is declared
	move := func(to int, prof string) func(l *Lineage) {
		return func(l *Lineage) {
			d := l.Files[fP].Deps[0]
			l.Files[fP].Deps = nil
			if prof != "" {
				p := profileAt(l, to, prof, activeProfile)
				p.Deps = append(p.Deps, d)
			} else {
				l.Files[to].Deps = append(l.Files[to].Deps, d)
			}
		}
	}
	fa.Slots = append(fa.Slots, FSlot{"decl", []FOpt{opt("a1", move(fA1, "")), opt("a2", move(fA2, "")), opt("p.profile", move(fP, "on")), opt("a1.profile", move(fA1, "on"))}})
	// definitions of v
	def := func(file int, prof string, active bool, k, v string) func(l *Lineage) {
		return func(l *Lineage) {
			if prof != "" {
				mk := activeProfile
				if !active {
					mk = inactiveProfile
				}
				p := profileAt(l, file, prof, mk)
				p.Props = append(p.Props, KV{k, v})
			} else {
				l.Files[file].Props = append(l.Files[file].Props, KV{k, v})
			}
		}
	}
	for _, k := range []string{"v", "w"} {
		vals := map[string][]string{"v": {""}, "w": {"", "${v}", "W${v}"}}[k]
		for _, f := range []int{fP, fA1, fA2} {
			var os []FOpt
			for _, val := range vals {
				value := val
				if value == "" {
					value = fmt.Sprintf("%s@%s", k, fileNames[f])
				}
				os = append(os, opt(value, def(f, "", true, k, value)))
			}
			fa.Slots = append(fa.Slots, FSlot{k + "@" + fileNames[f], os})
			value := fmt.Sprintf("%s@%s.on", k, fileNames[f])
			fa.Slots = append(fa.Slots, FSlot{k + "@" + fileNames[f] + ".on", []FOpt{opt(value, def(f, "on", true, k, value))}})
		}
		value := fmt.Sprintf("%s@p.off", k)
		fa.Slots = append(fa.Slots, FSlot{k + "@p.off", []FOpt{opt(value, def(fP, "off", false, k, value))}})
	}
	// a second definition in the same file (last one wins in Maven's Properties)
	fa.Slots = append(fa.Slots, FSlot{"v-twice@a2", []FOpt{opt("A2b", def(fA2, "", true, "v", "A2b"))}})
	// explicit definitions of built-in names
	for _, k := range []string{"version", "project.version", "pom.version", "project.parent.version", "groupId", "project.groupId"} {
		fa.Slots = append(fa.Slots, FSlot{"def-" + k, []FOpt{opt("p", def(fP, "", true, k, "OV")), opt("a1", def(fA1, "", true, k, "OVA1"))}})
	}
	// cyclic and self-referential chains reach the dependency only through ${w}; Maven reports them as errors
	fa.Slots = append(fa.Slots, FSlot{"cycle", []FOpt{opt("v=${v}", def(fP, "", true, "v", "${v}")), opt("v=${w},w=${v}", func(l *Lineage) {
		l.Files[fP].Props = append(l.Files[fP].Props, KV{"v", "${w}"}, KV{"w", "${v}"})
	})}})
	// inheritance of the project's own coordinates
	fa.Slots = append(fa.Slots, FSlot{"omit", []FOpt{
		opt("version", func(l *Lineage) { l.Files[fP].OmitV = true; l.Files[fP].Coord[2] = "2" }),
		opt("group", func(l *Lineage) { l.Files[fP].OmitG = true }),
		opt("both", func(l *Lineage) { l.Files[fP].OmitG = true; l.Files[fP].OmitV = true; l.Files[fP].Coord[2] = "2" }),
		opt("a1-version", func(l *Lineage) {
			l.Files[fA1].OmitV = true
			l.Files[fA1].Coord[2] = "3"
			l.Files[fP].Parent[2] = "3"
		}),
	}})
	// deeper lineage, ancestor in another group
	fa.Slots = append(fa.Slots, FSlot{"depth", []FOpt{
		opt("a3", func(l *Lineage) {
			l.Files[fA2].Parent = parentOf(l.Files[fA3].Coord)
			l.Files[fA3].Props = append(l.Files[fA3].Props, KV{"v", "A3"}, KV{"w", "w@a3"})
		}),
		opt("a4", func(l *Lineage) {
			l.Files[fA2].Parent = parentOf(l.Files[fA3].Coord)
			l.Files[fA3].Parent = parentOf(l.Files[fA4].Coord)
			l.Files[fA4].Props = append(l.Files[fA4].Props, KV{"w", "w@a4"}, KV{"u", "u@a4"})
		}),
		opt("a1-other-group", func(l *Lineage) {
			l.Files[fA1].Coord[0] = "h"
			l.Files[fP].Parent[0] = "h"
		}),
	}})
	// a managed dependency whose version is an expression, injected into a version-less dependency
	fa.Slots = append(fa.Slots, FSlot{"managed", []FOpt{
		opt("a2:${v}", func(l *Lineage) {
			l.Files[fA2].Mgmt = append(l.Files[fA2].Mgmt, Dep{G: "g", A: "e", V: "${v}"})
			l.Files[fP].Deps = append(l.Files[fP].Deps, Dep{G: "g", A: "e"})
		}),
		opt("a1:${project.version}", func(l *Lineage) {
			l.Files[fA1].Mgmt = append(l.Files[fA1].Mgmt, Dep{G: "g", A: "e", V: "${project.version}"})
			l.Files[fP].Deps = append(l.Files[fP].Deps, Dep{G: "g", A: "e"})
		}),
	}})
	// expressions in other fields of the dependency
	fa.Slots = append(fa.Slots, FSlot{"field", []FOpt{
		opt("scope", func(l *Lineage) {
			l.Files[fP].Deps = append(l.Files[fP].Deps, Dep{G: "g", A: "f", V: "1", Scope: "${v}"})
		}),
		opt("artifact", func(l *Lineage) { l.Files[fP].Deps = append(l.Files[fP].Deps, Dep{G: "g", A: "f-${v}", V: "1"}) }),
		opt("group", func(l *Lineage) {
			l.Files[fP].Deps = append(l.Files[fP].Deps, Dep{G: "${project.groupId}", A: "f", V: "1"})
		}),
		opt("classifier", func(l *Lineage) {
			l.Files[fP].Deps = append(l.Files[fP].Deps, Dep{G: "g", A: "f", V: "1", Classifier: "${v}"})
		}),
		opt("optional", func(l *Lineage) {
			l.Files[fP].Props = append(l.Files[fP].Props, KV{"o", "true"})
			l.Files[fP].Deps = append(l.Files[fP].Deps, Dep{G: "g", A: "f", V: "1", Optional: "${o}"})
		}),
		opt("exclusion", func(l *Lineage) {
			l.Files[fP].Deps = append(l.Files[fP].Deps, Dep{G: "g", A: "f", V: "1", Excl: []string{"${project.groupId}:x${v}"}})
		}),
	}})
	return fa
}

// ---------------------------------------------------------------------------------------------
// family "mgmt": dependency management injection, imports, duplicates

func mgmtFamily() Family {
	fa := Family{Name: "mgmt", Quick: 2, Full: 3}
	fa.Base = func() Lineage {
		l := skeleton()
		l.Files[fP].Deps = []Dep{{G: "g", A: "d"}, {G: "g", A: "e", V: "1"}}
		l.Files[fA2].Mgmt = []Dep{{G: "g", A: "d", V: "a2"}}
		return l
	}
	// the dependency's own fields
	set := func(f func(d *Dep)) func(l *Lineage) { return func(l *Lineage) { f(&l.Files[fP].Deps[0]) } }
	fa.Slots = append(fa.Slots,
		FSlot{"dep.version", []FOpt{opt("5", set(func(d *Dep) { d.V = "5" }))}},
		FSlot{"dep.scope", []FOpt{opt("test", set(func(d *Dep) { d.Scope = "test" })), opt("runtime", set(func(d *Dep) { d.Scope = "runtime" }))}},
		FSlot{"dep.optional", []FOpt{opt("true", set(func(d *Dep) { d.Optional = "true" })), opt("false", set(func(d *Dep) { d.Optional = "false" }))}},
		FSlot{"dep.excl", []FOpt{opt("x:x", set(func(d *Dep) { d.Excl = []string{"x:x"} })), opt("x:x,x:z", set(func(d *Dep) { d.Excl = []string{"x:x", "x:z"} }))}},
		FSlot{"dep.type", []FOpt{opt("test-jar", set(func(d *Dep) { d.Type = "test-jar" })), opt("jar", set(func(d *Dep) { d.Type = "jar" }))}},
		FSlot{"dep.classifier", []FOpt{opt("c", set(func(d *Dep) { d.Classifier = "c" }))}},
	)
	// further declarations of the same dependency
	fa.Slots = append(fa.Slots, FSlot{"again", []FOpt{
		heavy(opt("p:7", func(l *Lineage) { l.Files[fP].Deps = append(l.Files[fP].Deps, Dep{G: "g", A: "d", V: "7"}) })),
		heavy(opt("p:7-first", func(l *Lineage) {
			l.Files[fP].Deps = append([]Dep{{G: "g", A: "d", V: "7", Scope: "test"}}, l.Files[fP].Deps...)
			l.Files[fP].Deps[1], l.Files[fP].Deps[2] = l.Files[fP].Deps[2], l.Files[fP].Deps[1]
		})),
		opt("a1:8", func(l *Lineage) {
			l.Files[fA1].Deps = append(l.Files[fA1].Deps, Dep{G: "g", A: "d", V: "8", Scope: "provided"})
		}),
		opt("a1:none", func(l *Lineage) {
			l.Files[fA1].Deps = append(l.Files[fA1].Deps, Dep{G: "g", A: "d"}, Dep{G: "g", A: "k", V: "1"})
		}),
		opt("a2:test-jar", func(l *Lineage) {
			l.Files[fA2].Deps = append(l.Files[fA2].Deps, Dep{G: "g", A: "d", V: "9", Type: "test-jar"})
		}),
	}})
	// managed entries for d at each place, in several shapes
	shapes := []struct {
		name string
		mk   func(v string) Dep
	}{
		{"plain", func(v string) Dep { return Dep{G: "g", A: "d", V: v} }},
		{"scope", func(v string) Dep { return Dep{G: "g", A: "d", V: v, Scope: "test"} }},
		{"excl", func(v string) Dep { return Dep{G: "g", A: "d", V: v, Excl: []string{"y:" + v}} }},
		{"optional", func(v string) Dep { return Dep{G: "g", A: "d", V: v, Optional: "true"} }},
		{"test-jar", func(v string) Dep { return Dep{G: "g", A: "d", V: v, Type: "test-jar"} }},
		{"classifier", func(v string) Dep { return Dep{G: "g", A: "d", V: v, Classifier: "c"} }},
		{"noversion", func(v string) Dep { return Dep{G: "g", A: "d", Scope: "provided", Excl: []string{"y:" + v}} }},
	}
	for _, f := range []int{fP, fA1, fA2, fB1, fB2, fB3, fBP} {
		f := f
		var os []FOpt
		for _, sh := range shapes {
			sh := sh
			os = append(os, opt(sh.name, func(l *Lineage) {
				if f == fA2 {
					// replaces the base's entry: several managed declarations of one key in a single file are
					// outside the domain (Maven's own answer then depends on whether an ancestor manages anything)
					l.Files[f].Mgmt = l.Files[f].Mgmt[1:]
				}
				l.Files[f].Mgmt = append(l.Files[f].Mgmt, sh.mk(fileNames[f]))
			}))
		}
		if f == fP || f == fA1 {
			os = append(os, opt("profile", func(l *Lineage) {
				p := profileAt(l, f, "on", activeProfile)
				p.Mgmt = append(p.Mgmt, Dep{G: "g", A: "d", V: fileNames[f] + ".on"})
			}))
		}
		fa.Slots = append(fa.Slots, FSlot{"mg@" + fileNames[f], os})
	}
	// a2 does not manage d
	fa.Slots = append(fa.Slots, FSlot{"mg@a2-none", []FOpt{opt("drop", func(l *Lineage) { l.Files[fA2].Mgmt = l.Files[fA2].Mgmt[1:] })}})
	// imports
	imp := func(from int, bom int, ver string) func(l *Lineage) {
		return func(l *Lineage) {
			c := l.Files[bom].Coord
			if ver == "" {
				ver = c[2]
			}
			l.Files[from].Mgmt = append(l.Files[from].Mgmt, Dep{G: c[0], A: c[1], V: ver, Type: "pom", Scope: "import"})
		}
	}
	both := func(fs ...func(l *Lineage)) func(l *Lineage) {
		return func(l *Lineage) {
			for _, f := range fs {
				f(l)
			}
		}
	}
	fa.Slots = append(fa.Slots,
		FSlot{"import@p", []FOpt{
			opt("b1", imp(fP, fB1, "")), opt("b2", imp(fP, fB2, "")), opt("b1,b2", both(imp(fP, fB1, ""), imp(fP, fB2, ""))), opt("b2,b1", both(imp(fP, fB2, ""), imp(fP, fB1, ""))),
			opt("b1-first", func(l *Lineage) {
				c := l.Files[fB1].Coord
				l.Files[fP].Mgmt = append([]Dep{{G: c[0], A: c[1], V: c[2], Type: "pom", Scope: "import"}}, l.Files[fP].Mgmt...)
			}),
			opt("b1-by-property", both(imp(fP, fB1, "${bv}"), func(l *Lineage) { l.Files[fA1].Props = append(l.Files[fA1].Props, KV{"bv", "1"}) })),
			opt("b1-in-profile", func(l *Lineage) {
				c := l.Files[fB1].Coord
				p := profileAt(l, fP, "on", activeProfile)
				p.Mgmt = append(p.Mgmt, Dep{G: c[0], A: c[1], V: c[2], Type: "pom", Scope: "import"})
			}),
			opt("b1-twice", both(imp(fP, fB1, ""), imp(fP, fB2, ""), imp(fP, fB1, ""))),
		}},
		FSlot{"import@a1", []FOpt{opt("b1", imp(fA1, fB1, "")), opt("b2", imp(fA1, fB2, "")), opt("b3", imp(fA1, fB3, ""))}},
		FSlot{"import@a2", []FOpt{opt("b2", imp(fA2, fB2, "")), opt("b3-first", func(l *Lineage) {
			c := l.Files[fB3].Coord
			l.Files[fA2].Mgmt = append([]Dep{{G: c[0], A: c[1], V: c[2], Type: "pom", Scope: "import"}}, l.Files[fA2].Mgmt...)
		})}},
		FSlot{"import@b1", []FOpt{opt("b3", imp(fB1, fB3, "")), opt("b2", imp(fB1, fB2, "")), opt("b3,b2", both(imp(fB1, fB3, ""), imp(fB1, fB2, ""))), opt("b1-self", imp(fB1, fB1, ""))}},
		FSlot{"import@b2", []FOpt{opt("b3", imp(fB2, fB3, "")), opt("b1-cycle", imp(fB2, fB1, ""))}},
		FSlot{"parent@b1", []FOpt{
			opt("bp", func(l *Lineage) { l.Files[fB1].Parent = parentOf(l.Files[fBP].Coord) }),
			opt("bp-imports-b3", both(func(l *Lineage) { l.Files[fB1].Parent = parentOf(l.Files[fBP].Coord) }, imp(fBP, fB3, ""))),
		}},
		// the BOM's managed version is an expression evaluated in the BOM's own context
		FSlot{"bom-expr", []FOpt{
			opt("b1:${v}", func(l *Lineage) {
				l.Files[fB1].Props = append(l.Files[fB1].Props, KV{"v", "b1v"})
				l.Files[fP].Props = append(l.Files[fP].Props, KV{"v", "pv"})
				l.Files[fB1].Mgmt = append(l.Files[fB1].Mgmt, Dep{G: "g", A: "d", V: "${v}"})
			}),
			opt("b1:${project.version}", func(l *Lineage) {
				l.Files[fB1].Mgmt = append(l.Files[fB1].Mgmt, Dep{G: "g", A: "d", V: "${project.version}"}, Dep{G: "${project.groupId}", A: "k", V: "1"})
			}),
			opt("b1:${project.parent.version}", func(l *Lineage) {
				l.Files[fB1].Parent = parentOf(l.Files[fBP].Coord)
				l.Files[fB1].Mgmt = append(l.Files[fB1].Mgmt, Dep{G: "g", A: "d", V: "${project.parent.version}"})
			}),
			opt("bp:${v}", func(l *Lineage) {
				l.Files[fB1].Parent = parentOf(l.Files[fBP].Coord)
				l.Files[fB1].Props = append(l.Files[fB1].Props, KV{"v", "b1v"})
				l.Files[fBP].Props = append(l.Files[fBP].Props, KV{"v", "bpv"})
				l.Files[fBP].Mgmt = append(l.Files[fBP].Mgmt, Dep{G: "g", A: "d", V: "${v}"})
			}),
			opt("b1-profile", func(l *Lineage) {
				p := profileAt(l, fB1, "on", activeProfile)
				p.Mgmt = append(p.Mgmt, Dep{G: "g", A: "d", V: "b1.on"})
			}),
		}},
		// other managed artifacts: order of the managed list
		FSlot{"others", []FOpt{
			opt("k@a1,m@p", func(l *Lineage) {
				l.Files[fA1].Mgmt = append(l.Files[fA1].Mgmt, Dep{G: "g", A: "k", V: "1"})
				l.Files[fP].Mgmt = append(l.Files[fP].Mgmt, Dep{G: "g", A: "m", V: "1"})
			}),
			opt("k@b1,k@b2,m@b3", func(l *Lineage) {
				l.Files[fB1].Mgmt = append(l.Files[fB1].Mgmt, Dep{G: "g", A: "k", V: "b1"})
				l.Files[fB2].Mgmt = append(l.Files[fB2].Mgmt, Dep{G: "g", A: "k", V: "b2"}, Dep{G: "g", A: "n", V: "b2"})
				l.Files[fB3].Mgmt = append(l.Files[fB3].Mgmt, Dep{G: "g", A: "m", V: "b3"}, Dep{G: "g", A: "k", V: "b3"})
			}),
			opt("e-managed", func(l *Lineage) {
				l.Files[fA1].Mgmt = append(l.Files[fA1].Mgmt, Dep{G: "g", A: "e", V: "3", Scope: "test", Excl: []string{"y:y"}, Optional: "true"})
			}),
		}},
	)
	return fa
}

// ---------------------------------------------------------------------------------------------
// family "profiles": activation by default, JDK and OS; what an active profile contributes

// Activations is the activation alphabet.
func activations(full bool) []Activation {
	as := []Activation{{}, {Default: true}}
	jdks := []string{"11", "11.0", "11.0.8", "1.8", "11.0.7", "11.0.9", "12", "1", "!11", "!1.8", "[1.8,12)", "[11,)", "(,11]", "[11.0.8]", "(11.0.8,)", "[1.8,11)", "(,11.0.8)", "[11.0.8,)", "[12,)", "(,11)", "[1.8,)", "11.0.8.1", "1.11"}
	if !full {
		jdks = jdks[:16]
	}
	for _, j := range jdks {
		as = append(as, Activation{JDK: j})
	}
	for _, f := range []string{"unix", "windows", "!windows", "mac", "Unix", "!unix"} {
		as = append(as, Activation{OSFamily: f})
	}
	for _, n := range []string{"linux", "Linux", "windows", "!linux", "!windows"} {
		as = append(as, Activation{OSName: n})
	}
	for _, a := range []string{"amd64", "x86", "!amd64", "AMD64"} {
		as = append(as, Activation{OSArch: a})
	}
	for _, v := range []string{"5.10.0-26-cloud-amd64", "5.10", "!5.10"} {
		as = append(as, Activation{OSVer: v})
	}
	as = append(as,
		Activation{JDK: "11", OSFamily: "unix"}, Activation{JDK: "11", OSFamily: "windows"}, Activation{JDK: "1.8", OSFamily: "unix"},
		Activation{OSFamily: "unix", OSName: "linux", OSArch: "amd64"}, Activation{OSFamily: "unix", OSName: "windows"},
		Activation{Default: true, JDK: "11"}, Activation{Default: true, JDK: "1.8"}, Activation{Default: true, OSFamily: "windows"},
		Activation{JDK: "!1.8", OSFamily: "windows"}, Activation{JDK: "!1.8", OSFamily: "unix"}, Activation{JDK: "!11", OSFamily: "unix"}, Activation{JDK: "!1.8", OSName: "windows"},
		Activation{JDK: "[1.8,)", OSFamily: "windows"}, Activation{JDK: "[1.8,)", OSArch: "x86"},
	)
	return as
}

func actName(a Activation) string {
	s := ""
	if a.Default {
		s += "default "
	}
	if a.JDK != "" {
		s += "jdk=" + a.JDK + " "
	}
	if a.OSFamily != "" {
		s += "family=" + a.OSFamily + " "
	}
	if a.OSName != "" {
		s += "name=" + a.OSName + " "
	}
	if a.OSArch != "" {
		s += "arch=" + a.OSArch + " "
	}
	if a.OSVer != "" {
		s += "osversion=" + a.OSVer + " "
	}
	if s == "" {
		return "none"
	}
	return s[:len(s)-1]
}

func profilesFamily(full bool) Family {
	fa := Family{Name: "profiles", Quick: 2, Full: 3}
	fa.Base = func() Lineage {
		l := skeleton()
		l.Files[fP].Props = []KV{{"v", "base"}}
		l.Files[fP].Deps = []Dep{{G: "g", A: "e", V: "${v}"}}
		l.Files[fP].Profiles = []Profile{{ID: "x", Act: Activation{JDK: "11"}, Props: []KV{{"v", "x"}}, Deps: []Dep{{G: "g", A: "dx", V: "1"}}}}
		return l
	}
	acts := activations(full)
	var xo []FOpt
	for _, a := range acts {
		a := a
		xo = append(xo, opt(actName(a), func(l *Lineage) { l.Files[fP].Profiles[0].Act = a }))
	}
	fa.Slots = append(fa.Slots, FSlot{"x", xo})
	// a second profile in the project and one in the parent
	few := []Activation{{Default: true}, {JDK: "11"}, {JDK: "1.8"}, {OSFamily: "unix"}, {OSFamily: "windows"}, {}}
	for _, where := range []struct {
		name string
		file int
	}{{"y@p", fP}, {"z@a1", fA1}, {"z@a2", fA2}} {
		where := where
		var os []FOpt
		for _, a := range few {
			a := a
			os = append(os, opt(actName(a), func(l *Lineage) {
				id := where.name[:1]
				l.Files[where.file].Profiles = append(l.Files[where.file].Profiles, Profile{ID: id, Act: a, Props: []KV{{"v", id}}, Deps: []Dep{{G: "g", A: "d" + id, V: "${v}"}}})
			}))
		}
		fa.Slots = append(fa.Slots, FSlot{where.name, os})
	}
	// y declared before x
	fa.Slots = append(fa.Slots, FSlot{"y-first", []FOpt{opt("jdk=11", func(l *Lineage) {
		l.Files[fP].Profiles = append([]Profile{{ID: "y0", Act: Activation{JDK: "11"}, Props: []KV{{"v", "y0"}}, Deps: []Dep{{G: "g", A: "dy0", V: "1"}}}}, l.Files[fP].Profiles...)
		// keep x at index 0 for the x slot: it is applied before this one
	})}})
	// what x contributes
	fa.Slots = append(fa.Slots, FSlot{"x-content", []FOpt{
		opt("dep-redeclared", func(l *Lineage) {
			x := &l.Files[fP].Profiles[len(l.Files[fP].Profiles)-1]
			if l.Files[fP].Profiles[0].ID == "x" {
				x = &l.Files[fP].Profiles[0]
			}
			x.Deps = append(x.Deps, Dep{G: "g", A: "e", V: "9", Scope: "test"})
		}),
		opt("mgmt", func(l *Lineage) {
			x := &l.Files[fP].Profiles[0]
			x.Mgmt = append(x.Mgmt, Dep{G: "g", A: "m", V: "mx"})
			l.Files[fP].Deps = append(l.Files[fP].Deps, Dep{G: "g", A: "m"})
			l.Files[fA1].Mgmt = append(l.Files[fA1].Mgmt, Dep{G: "g", A: "m", V: "ma1"})
		}),
		opt("mgmt-vs-own", func(l *Lineage) {
			x := &l.Files[fP].Profiles[0]
			x.Mgmt = append(x.Mgmt, Dep{G: "g", A: "m", V: "mx"})
			l.Files[fP].Deps = append(l.Files[fP].Deps, Dep{G: "g", A: "m"})
			l.Files[fP].Mgmt = append(l.Files[fP].Mgmt, Dep{G: "g", A: "m", V: "mp"})
		}),
		opt("twice-in-profile", func(l *Lineage) {
			x := &l.Files[fP].Profiles[0]
			x.Deps = append(x.Deps, Dep{G: "g", A: "dd", V: "1.5"}, Dep{G: "g", A: "k", V: "1"}, Dep{G: "g", A: "dd", V: "2.0", Scope: "test"})
		}),
		opt("no-props", func(l *Lineage) { l.Files[fP].Profiles[0].Props = nil }),
		opt("new-prop", func(l *Lineage) {
			x := &l.Files[fP].Profiles[0]
			x.Props = append(x.Props, KV{"q", "qx"})
			l.Files[fP].Deps = append(l.Files[fP].Deps, Dep{G: "g", A: "dq", V: "${q}"})
			l.Files[fA1].Props = append(l.Files[fA1].Props, KV{"q", "qa1"})
		}),
	}})
	// property defined in the parent as well
	fa.Slots = append(fa.Slots, FSlot{"v@a1", []FOpt{opt("a1", func(l *Lineage) { l.Files[fA1].Props = append(l.Files[fA1].Props, KV{"v", "a1"}) }),
		opt("only-a1", func(l *Lineage) {
			l.Files[fA1].Props = append(l.Files[fA1].Props, KV{"v", "a1"})
			l.Files[fP].Props = nil
		})}})
	return fa
}

// ---------------------------------------------------------------------------------------------
// family "imports": the order in which nested and sibling imports are merged

func importsFamily() Family {
	fa := Family{Name: "imports", Quick: 2, Full: 3}
	imp := func(l *Lineage, from, bom int) {
		c := l.Files[bom].Coord
		l.Files[from].Mgmt = append(l.Files[from].Mgmt, Dep{G: c[0], A: c[1], V: c[2], Type: "pom", Scope: "import"})
	}
	fa.Base = func() Lineage {
		l := skeleton()
		l.Files[fP].Deps = []Dep{{G: "g", A: "d"}, {G: "g", A: "e", V: "1"}}
		imp(&l, fP, fB1)
		imp(&l, fP, fB2)
		imp(&l, fB1, fB3)
		l.Files[fB3].Mgmt = append(l.Files[fB3].Mgmt, Dep{G: "g", A: "d", V: "b3", Scope: "runtime"}, Dep{G: "g", A: "k", V: "b3"})
		l.Files[fB2].Mgmt = append(l.Files[fB2].Mgmt, Dep{G: "g", A: "d", V: "b2", Excl: []string{"y:b2"}}, Dep{G: "g", A: "m", V: "b2"})
		return l
	}
	for _, f := range []int{fP, fA1, fB1, fB2, fB3, fBP} {
		f := f
		// several managed declarations of one key in a single file are outside the domain: an option replaces the
		// file's entry for that artifact if there is one
		put := func(l *Lineage, first bool, ds ...Dep) {
			for _, d := range ds {
				var rest []Dep
				for _, m := range l.Files[f].Mgmt {
					if m.A != d.A || m.Scope == "import" {
						rest = append(rest, m)
					}
				}
				if first {
					l.Files[f].Mgmt = append([]Dep{d}, rest...)
				} else {
					l.Files[f].Mgmt = append(rest, d)
				}
			}
		}
		fa.Slots = append(fa.Slots, FSlot{"mg@" + fileNames[f], []FOpt{
			opt("d", func(l *Lineage) { put(l, false, Dep{G: "g", A: "d", V: fileNames[f] + "'"}) }),
			opt("d-first", func(l *Lineage) { put(l, true, Dep{G: "g", A: "d", V: fileNames[f] + "'"}) }),
			opt("k,m", func(l *Lineage) {
				put(l, false, Dep{G: "g", A: "k", V: fileNames[f] + "'"}, Dep{G: "g", A: "m", V: fileNames[f] + "'", Scope: "test"})
			}),
		}})
	}
	fa.Slots = append(fa.Slots,
		FSlot{"drop", []FOpt{
			opt("d@b3", func(l *Lineage) { l.Files[fB3].Mgmt = l.Files[fB3].Mgmt[1:] }),
			opt("d@b2", func(l *Lineage) { l.Files[fB2].Mgmt = l.Files[fB2].Mgmt[1:] }),
		}},
		FSlot{"more", []FOpt{
			opt("b2->b3", func(l *Lineage) { imp(l, fB2, fB3) }),
			opt("b3->b2", func(l *Lineage) { imp(l, fB3, fB2) }),
			opt("b1->b2", func(l *Lineage) { imp(l, fB1, fB2) }),
			opt("a1->b3", func(l *Lineage) { imp(l, fA1, fB3) }),
			opt("a1->b2", func(l *Lineage) { imp(l, fA1, fB2) }),
			opt("p->b3", func(l *Lineage) { imp(l, fP, fB3) }),
			opt("p->b3-first", func(l *Lineage) {
				c := l.Files[fB3].Coord
				l.Files[fP].Mgmt = append([]Dep{{G: c[0], A: c[1], V: c[2], Type: "pom", Scope: "import"}}, l.Files[fP].Mgmt...)
			}),
			opt("b1-parent-bp->b2", func(l *Lineage) {
				l.Files[fB1].Parent = parentOf(l.Files[fBP].Coord)
				imp(l, fBP, fB2)
			}),
		}},
		FSlot{"swap", []FOpt{opt("p:b2,b1", func(l *Lineage) {
			m := l.Files[fP].Mgmt
			m[0], m[1] = m[1], m[0]
		})}},
		FSlot{"dep", []FOpt{
			opt("k,m", func(l *Lineage) {
				l.Files[fP].Deps = append(l.Files[fP].Deps, Dep{G: "g", A: "k"}, Dep{G: "g", A: "m"})
			}),
			opt("own-excl", func(l *Lineage) { l.Files[fP].Deps[0].Excl = []string{"x:x"} }),
			opt("own-scope", func(l *Lineage) { l.Files[fP].Deps[0].Scope = "provided" }),
		}},
	)
	return fa
}

// Families returns the families of the tier's domain.
func Families(full bool) []Family {
	return []Family{propsFamily(), mgmtFamily(), profilesFamily(full), importsFamily()}
}

// Domain enumerates the tier's lineages (deduplicated by content), in a deterministic order.
func Domain(full bool) (labels []string, ls []Lineage) {
	seen := map[string]bool{}
	for _, fa := range Families(full) {
		b := fa.Quick
		if full {
			b = fa.Full
		}
		fa.Enumerate(b, func(label string, l Lineage) {
			l = prune(l)
			k := l.JSON()
			if seen[k] {
				return
			}
			seen[k] = true
			labels = append(labels, label)
			ls = append(ls, l)
		})
	}
	return
}

// prune drops files nothing refers to (so that witnesses stay small) while keeping the project first.
func prune(l Lineage) Lineage {
	byKey := map[string]int{}
	for i, f := range l.Files {
		byKey[CoordKey(f.Coord)] = i
	}
	keep := map[int]bool{0: true}
	var visit func(i int)
	visit = func(i int) {
		f := l.Files[i]
		refs := [][3]string{}
		if f.Parent != nil {
			refs = append(refs, *f.Parent)
		}
		add := func(ds []Dep) {
			for _, d := range ds {
				if d.Scope == "import" {
					// the version may be an expression: keep every file with that artifact id
					for j, g := range l.Files {
						if g.Coord[0] == d.G && g.Coord[1] == d.A && !keep[j] {
							keep[j] = true
							visit(j)
						}
					}
				}
			}
		}
		add(f.Mgmt)
		for _, p := range f.Profiles {
			add(p.Mgmt)
		}
		for _, r := range refs {
			if j, ok := byKey[CoordKey(r)]; ok && !keep[j] {
				keep[j] = true
				visit(j)
			}
		}
	}
	visit(0)
	out := Lineage{}
	for i, f := range l.Files {
		if keep[i] {
			out.Files = append(out.Files, f)
		}
	}
	return out
}
