// Package pom holds the lineage model of the effective-POM check (C15): a small
// description of a project, its ancestors and imported BOMs, its rendering as
// pom.xml files, the library pipeline that turns the files into effective
// dependencies, and the normal form in which the library's and Maven's answers
// are compared.
package pom

import (
	"encoding/json"
	"encoding/xml"
	"errors"
	"fmt"
	"strings"

	"deps.dev/util/maven"
)

// Dep is one <dependency> declaration; empty fields are not written.
type Dep struct {
	G, A       string
	V          string   `json:",omitempty"`
	Type       string   `json:",omitempty"`
	Classifier string   `json:",omitempty"`
	Scope      string   `json:",omitempty"`
	Optional   string   `json:",omitempty"`
	Excl       []string `json:",omitempty"` // "g:a"
}

// KV is one property.
type KV struct{ K, V string }

// Activation is a profile's <activation>.
type Activation struct {
	Default  bool   `json:",omitempty"`
	JDK      string `json:",omitempty"`
	OSName   string `json:",omitempty"`
	OSFamily string `json:",omitempty"`
	OSArch   string `json:",omitempty"`
	OSVer    string `json:",omitempty"`
}

// Profile is one <profile>.
type Profile struct {
	ID    string
	Act   Activation
	Props []KV  `json:",omitempty"`
	Deps  []Dep `json:",omitempty"`
	Mgmt  []Dep `json:",omitempty"`
}

// POM is one file. Coord is where it lives in the repository; OmitG/OmitV leave
// the project's own groupId/version to be inherited from the parent.
type POM struct {
	Coord     [3]string
	OmitG     bool       `json:",omitempty"`
	OmitV     bool       `json:",omitempty"`
	Parent    *[3]string `json:",omitempty"`
	Packaging string     `json:",omitempty"`
	Props     []KV       `json:",omitempty"`
	Deps      []Dep      `json:",omitempty"`
	Mgmt      []Dep      `json:",omitempty"`
	Profiles  []Profile  `json:",omitempty"`
}

// Lineage is a set of files; the first one is the project that is built.
type Lineage struct {
	Files []POM
}

func (l Lineage) JSON() string {
	b, _ := json.Marshal(l)
	return string(b)
}

func FromJSON(s string) (Lineage, error) {
	var l Lineage
	err := json.Unmarshal([]byte(s), &l)
	return l, err
}

// Clone makes a deep copy through JSON (lineages are tiny).
func (l Lineage) Clone() Lineage {
	c, _ := FromJSON(l.JSON())
	return c
}

func CoordKey(c [3]string) string { return c[0] + ":" + c[1] + ":" + c[2] }

func esc(s string) string {
	var b strings.Builder
	xml.EscapeText(&b, []byte(s))
	return b.String()
}

func tag(b *strings.Builder, name, val string) {
	if val != "" {
		b.WriteString("<" + name + ">" + esc(val) + "</" + name + ">")
	}
}

func writeDeps(b *strings.Builder, ds []Dep) {
	if len(ds) == 0 {
		return
	}
	b.WriteString("<dependencies>")
	for _, d := range ds {
		b.WriteString("<dependency>")
		tag(b, "groupId", d.G)
		tag(b, "artifactId", d.A)
		tag(b, "version", d.V)
		tag(b, "type", d.Type)
		tag(b, "classifier", d.Classifier)
		tag(b, "scope", d.Scope)
		tag(b, "optional", d.Optional)
		if len(d.Excl) > 0 {
			b.WriteString("<exclusions>")
			for _, e := range d.Excl {
				g, a, _ := strings.Cut(e, ":")
				b.WriteString("<exclusion>")
				tag(b, "groupId", g)
				tag(b, "artifactId", a)
				b.WriteString("</exclusion>")
			}
			b.WriteString("</exclusions>")
		}
		b.WriteString("</dependency>")
	}
	b.WriteString("</dependencies>")
}

func writeProps(b *strings.Builder, ps []KV) {
	if len(ps) == 0 {
		return
	}
	b.WriteString("<properties>")
	for _, p := range ps {
		b.WriteString("<" + p.K + ">" + esc(p.V) + "</" + p.K + ">")
	}
	b.WriteString("</properties>")
}

// XML renders the file on one line.
func (p POM) XML() string {
	var b strings.Builder
	b.WriteString(`<project xmlns="http://maven.apache.org/POM/4.0.0"><modelVersion>4.0.0</modelVersion>`)
	if p.Parent != nil {
		b.WriteString("<parent>")
		tag(&b, "groupId", p.Parent[0])
		tag(&b, "artifactId", p.Parent[1])
		tag(&b, "version", p.Parent[2])
		b.WriteString("</parent>")
	}
	if !p.OmitG {
		tag(&b, "groupId", p.Coord[0])
	}
	tag(&b, "artifactId", p.Coord[1])
	if !p.OmitV {
		tag(&b, "version", p.Coord[2])
	}
	tag(&b, "packaging", p.Packaging)
	writeProps(&b, p.Props)
	if len(p.Mgmt) > 0 {
		b.WriteString("<dependencyManagement>")
		writeDeps(&b, p.Mgmt)
		b.WriteString("</dependencyManagement>")
	}
	writeDeps(&b, p.Deps)
	if len(p.Profiles) > 0 {
		b.WriteString("<profiles>")
		for _, pr := range p.Profiles {
			b.WriteString("<profile>")
			tag(&b, "id", pr.ID)
			a := pr.Act
			if a != (Activation{}) {
				b.WriteString("<activation>")
				if a.Default {
					tag(&b, "activeByDefault", "true")
				}
				tag(&b, "jdk", a.JDK)
				if a.OSName != "" || a.OSFamily != "" || a.OSArch != "" || a.OSVer != "" {
					b.WriteString("<os>")
					tag(&b, "name", a.OSName)
					tag(&b, "family", a.OSFamily)
					tag(&b, "arch", a.OSArch)
					tag(&b, "version", a.OSVer)
					b.WriteString("</os>")
				}
				b.WriteString("</activation>")
			}
			writeProps(&b, pr.Props)
			if len(pr.Mgmt) > 0 {
				b.WriteString("<dependencyManagement>")
				writeDeps(&b, pr.Mgmt)
				b.WriteString("</dependencyManagement>")
			}
			writeDeps(&b, pr.Deps)
			b.WriteString("</profile>")
		}
		b.WriteString("</profiles>")
	}
	b.WriteString("</project>")
	return b.String()
}

// Result is an effective dependency list and managed-dependency list in normal form, or an error.
type Result struct {
	Deps, Mgmt []string
	Err        string
}

func (r Result) String() string {
	if r.Err != "" {
		return "error: " + r.Err
	}
	return "deps[" + strings.Join(r.Deps, " ; ") + "] mgmt[" + strings.Join(r.Mgmt, " ; ") + "]"
}

// Equal compares the lists (errors are compared by presence only).
func (r Result) Equal(o Result) bool {
	if (r.Err != "") != (o.Err != "") {
		return false
	}
	if r.Err != "" {
		return true
	}
	return strings.Join(r.Deps, "\n") == strings.Join(o.Deps, "\n") && strings.Join(r.Mgmt, "\n") == strings.Join(o.Mgmt, "\n")
}

// Norm writes one dependency in the normal form shared by both sides: Maven's model
// builder fills in type jar everywhere and scope compile on dependencies (not on
// managed dependencies); optional is compared as a boolean.
func Norm(g, a, v, typ, classifier, scope, optional string, excl []string, managed bool) string {
	if typ == "" {
		typ = "jar"
	}
	if scope == "" && !managed {
		scope = "compile"
	}
	opt := "false"
	if strings.EqualFold(strings.TrimSpace(optional), "true") {
		opt = "true"
	}
	return fmt.Sprintf("%s:%s:%s type=%s classifier=%s scope=%s optional=%s excl=[%s]", g, a, v, typ, classifier, scope, opt, strings.Join(excl, "|"))
}

// Effective runs the library's documented pipeline (as util/resolve/maven.go and
// examples/go/maven_parse_resolve do): decode; merge the project's activated
// profiles; for every ancestor: decode, merge its profiles, MergeParent; Interpolate;
// ProcessDependencies with imports built by the same pipeline.
func Effective(l Lineage) Result {
	files := map[maven.ProjectKey]string{}
	for _, f := range l.Files {
		files[maven.ProjectKey{GroupID: maven.String(f.Coord[0]), ArtifactID: maven.String(f.Coord[1]), Version: maven.String(f.Coord[2])}] = f.XML()
	}
	if len(l.Files) == 0 {
		return Result{Err: "no files"}
	}
	return EffectiveFiles(files, l.Files[0].XML())
}

func decode(x string) (maven.Project, error) {
	var p maven.Project
	err := xml.NewDecoder(strings.NewReader(x)).Decode(&p)
	return p, err
}

const maxParent = 100

func mergeParents(files map[maven.ProjectKey]string, current maven.ProjectKey, start int, result *maven.Project) error {
	visited := map[maven.ProjectKey]bool{}
	for n := start; n < maxParent; n++ {
		if current.GroupID == "" || current.ArtifactID == "" || current.Version == "" {
			break
		}
		if visited[current] {
			return errors.New("cycle of parent projects")
		}
		visited[current] = true
		x, ok := files[current]
		if !ok {
			return fmt.Errorf("no such project %v", current)
		}
		proj, err := decode(x)
		if err != nil {
			return err
		}
		if n > 0 && proj.Packaging != "pom" {
			return fmt.Errorf("invalid packaging for parent project %s", proj.Packaging)
		}
		if err := proj.MergeProfiles(maven.JDKProfileActivation, maven.OSProfileActivation); err != nil {
			return err
		}
		result.MergeParent(proj)
		current = proj.Parent.ProjectKey
	}
	return result.Interpolate()
}

// EffectiveFiles is Effective on rendered files.
func EffectiveFiles(files map[maven.ProjectKey]string, projectXML string) (res Result) {
	defer func() {
		if r := recover(); r != nil {
			res = Result{Err: fmt.Sprintf("panic: %v", r)}
		}
	}()
	project, err := decode(projectXML)
	if err != nil {
		return Result{Err: "decode: " + err.Error()}
	}
	if err := project.MergeProfiles(maven.JDKProfileActivation, maven.OSProfileActivation); err != nil {
		return Result{Err: "profiles: " + err.Error()}
	}
	if err := mergeParents(files, project.Parent.ProjectKey, 1, &project); err != nil {
		return Result{Err: "parents: " + err.Error()}
	}
	project.ProcessDependencies(func(g, a, v maven.String) (maven.DependencyManagement, error) {
		var result maven.Project
		if err := mergeParents(files, maven.ProjectKey{GroupID: g, ArtifactID: a, Version: v}, 0, &result); err != nil {
			return maven.DependencyManagement{}, err
		}
		return result.DependencyManagement, nil
	})
	conv := func(ds []maven.Dependency, managed bool) []string {
		out := []string{}
		for _, d := range ds {
			var ex []string
			for _, e := range d.Exclusions {
				ex = append(ex, string(e.GroupID)+":"+string(e.ArtifactID))
			}
			out = append(out, Norm(string(d.GroupID), string(d.ArtifactID), string(d.Version), string(d.Type), string(d.Classifier), string(d.Scope), string(d.Optional), ex, managed))
		}
		return out
	}
	return Result{Deps: conv(project.Dependencies, false), Mgmt: conv(project.DependencyManagement.Dependencies, true)}
}
