module verif/harness

go 1.23.4

require (
	deps.dev/api/v3 v3.0.0-20240311054650-e1e6a3d70fb7
	deps.dev/api/v3alpha v0.0.0-00010101000000-000000000000
	deps.dev/util/maven v0.0.0-20240322043601-ff53416fec6a
	deps.dev/util/pypi v0.0.0-20250307021655-d811e36f9cad
	deps.dev/util/resolve v0.0.0-00010101000000-000000000000
	deps.dev/util/semver v0.0.0-20241230231135-52b7655a522f
	google.golang.org/genproto v0.0.0-20230410155749-daa745c078e1
	google.golang.org/grpc v1.71.1
	google.golang.org/protobuf v1.36.6
)

require (
	golang.org/x/mod v0.22.0
	golang.org/x/net v0.38.0 // indirect
	golang.org/x/sys v0.31.0 // indirect
	golang.org/x/text v0.23.0 // indirect
)

replace (
	deps.dev/api/v3 => /repo/api/v3
	deps.dev/api/v3alpha => /repo/api/v3alpha
	deps.dev/util/maven => /repo/util/maven
	deps.dev/util/pypi => /repo/util/pypi
	deps.dev/util/resolve => /repo/util/resolve
	deps.dev/util/semver => /repo/util/semver
)
