package props

import "verif/harness/core"

// Prop is one property's check and replay entry points.
type Prop struct {
	Check  func(tier string)
	Replay core.ReplayFunc
}

// Registry maps property ids to their checks.
var Registry = map[string]Prop{
	"C01": {C01, c01Replay},
	"C02": {C02, c02Replay},
	"C03": {C03, c03Replay},
	"C04": {C04, c04Replay},
	"C05": {C05, c05Replay},
	"C06": {C06, c06Replay},
	"C07": {C07, c07Replay},
	"C08": {C08, c08Replay},
	"C09": {C09, c09Replay},
	"C10": {C10, c10Replay},
	"C11": {C11, c11Replay},
	"C12": {C12, c12Replay},
	"C13": {C13, c13Replay},
	"C14": {C14, c14Replay},
	"C15": {C15, c15Replay},
	"C16": {C16, c16Replay},
	"C17": {C17, c17Replay},
	"C18": {C18, c18Replay},
	"C19": {C19, c19Replay},
}
