package props

import (
	"context"
	"fmt"
	"sort"
	"strings"
	"sync/atomic"

	"deps.dev/util/resolve"
	"deps.dev/util/resolve/version"
	"verif/harness/core"
)

// c12Rec is one version record of the alphabet.
type c12Rec struct {
	ver  string
	tags string // comma separated
	rank int    // ascending ecosystem rank (hand-assigned); equal rank = equal precedence; -1 = unparsable
	pre  bool   // prerelease (hand-assigned)
}

type c12Sys struct {
	name string
	sys  resolve.System
	recs []c12Rec
	// sat: requirement -> versions satisfying it (hand table). For npm, non-range requirements are
	// listed in nonRange and select by string/tag equality.
	sat      map[string][]string
	nonRange []string
	reqs     []string
}

func c12Alphabets() []*c12Sys {
	npm := &c12Sys{name: "NPM", sys: resolve.NPM,
		recs: []c12Rec{
			{"0.9.0", "next", 0, false},
			{"1.0.0", "", 1, false},
			{"1.0.0+build", "", 1, false},
			{"v1.0.0", "", 1, false},
			{"1.2.0", "latest-1", 2, false},
			{"1.5.0", "stable,latest,lts", 25, false},
			{"2.0.0-rc.1", "", 30, true},
			{"2.0.0", "", 40, false},
			{"2.1.0", "beta,next", 50, false},
			{"3.0.0-alpha", "latest", 60, true},
			{"3.0.0-beta", "", 61, true},
			{"not-a-version", "canary", -1, false},
			{"beta", "", -1, false},
			{"nightly", "latest,canary", -1, false},
		},
		sat: map[string][]string{
			"*":              {"0.9.0", "1.0.0", "1.0.0+build", "v1.0.0", "1.2.0", "1.5.0", "2.0.0", "2.1.0"},
			"^1.0.0":         {"1.0.0", "1.0.0+build", "v1.0.0", "1.2.0", "1.5.0"},
			"~1.5":           {"1.5.0"},
			">=2.0.0-rc.0":   {"2.0.0-rc.1", "2.0.0", "2.1.0"},
			"<2.0.0":         {"0.9.0", "1.0.0", "1.0.0+build", "v1.0.0", "1.2.0", "1.5.0"},
			"1.0.0":          {"1.0.0", "1.0.0+build", "v1.0.0"},
			">1.0.0 <=2.0.0": {"1.2.0", "1.5.0", "2.0.0"},
			"1.x || 3.x":     {"1.0.0", "1.0.0+build", "v1.0.0", "1.2.0", "1.5.0"},
			"2.0.0-rc.1":     {"2.0.0-rc.1"},
			">=3.0.0-0":      {"3.0.0-alpha", "3.0.0-beta"},
			"4.x":            {},
		},
		nonRange: []string{"latest", "beta", "next", "not-a-version", "nope", "latest-1", "beta,next", "stable,latest", "canary", "nightly"},
	}
	mvn := &c12Sys{name: "Maven", sys: resolve.Maven,
		recs: []c12Rec{
			{"0.9", "", 0, false},
			{"1.0", "", 1, false},
			{"1.0.0", "", 1, false},
			{"1", "", 1, false},
			{"1.1", "", 2, false},
			{"2.0-rc-1", "", 3, true},
			{"2.0", "", 4, false},
			{"2.0.1", "", 5, false},
			{"3.0", "", 6, false},
		},
		sat: map[string][]string{
			"[1.0,2.0)":             {"1.0", "1.0.0", "1", "1.1", "2.0-rc-1"},
			"[1.0]":                 {"1.0", "1.0.0", "1"},
			"(,1.1]":                {"0.9", "1.0", "1.0.0", "1", "1.1"},
			"[2.0,)":                {"2.0", "2.0.1", "3.0"},
			"1.0":                   {"0.9", "1.0", "1.0.0", "1", "1.1", "2.0-rc-1", "2.0", "2.0.1", "3.0"},
			"(1.0,2.0)":             {"1.1", "2.0-rc-1"},
			"[4.0,)":                {},
			"[1.0,1.1),[2.0,2.0.1]": {"1.0", "1.0.0", "1", "2.0", "2.0.1"},
		},
		nonRange: []string{"[oops", "3.0]"},
	}
	// PyPI: candidates are final releases only — whether a prerelease candidate satisfies a specifier is
	// heuristic in the library and differs between packaging releases (C03 puts it outside the domain).
	py := &c12Sys{name: "PyPI", sys: resolve.PyPI,
		recs: []c12Rec{
			{"0.9", "", 0, false},
			{"1.0", "", 1, false},
			{"1.0.0", "", 1, false},
			{"1", "", 1, false},
			{"1.1", "", 2, false},
			{"2.0", "", 4, false},
			{"2.0.0", "", 4, false},
			{"2.0.1", "", 5, false},
			{"3.0", "", 6, false},
		},
		sat: map[string][]string{
			"":                   {"0.9", "1.0", "1.0.0", "1", "1.1", "2.0", "2.0.0", "2.0.1", "3.0"},
			">=1.0":              {"1.0", "1.0.0", "1", "1.1", "2.0", "2.0.0", "2.0.1", "3.0"},
			"==1.0":              {"1.0", "1.0.0", "1"},
			"<2.0":               {"0.9", "1.0", "1.0.0", "1", "1.1"},
			"<=2.0":              {"0.9", "1.0", "1.0.0", "1", "1.1", "2.0", "2.0.0"},
			"~=1.0":              {"1.0", "1.0.0", "1", "1.1"},
			"!=1.1":              {"0.9", "1.0", "1.0.0", "1", "2.0", "2.0.0", "2.0.1", "3.0"},
			">2.0":               {"2.0.1", "3.0"},
			"==2.0.*":            {"2.0", "2.0.0", "2.0.1"},
			">=1.0,<2.0.1,!=1.1": {"1.0", "1.0.0", "1", "2.0", "2.0.0"},
			">3.0":               {},
		},
		nonRange: []string{"oops<", "2.0"},
	}
	for _, s := range []*c12Sys{npm, mvn, py} {
		for r := range s.sat {
			s.reqs = append(s.reqs, r)
		}
		sort.Strings(s.reqs)
		s.reqs = append(s.reqs, s.nonRange...)
	}
	return []*c12Sys{npm, mvn, py}
}

// expected computes the reference result for a requirement over a set of records (order independent).
func (s *c12Sys) expected(req string, recs []c12Rec) []string {
	// reference order
	ord := append([]c12Rec(nil), recs...)
	sort.SliceStable(ord, func(i, j int) bool {
		a, b := ord[i], ord[j]
		if (a.rank >= 0) != (b.rank >= 0) {
			return a.rank >= 0 // parsable first
		}
		if a.rank != b.rank && a.rank >= 0 {
			return a.rank < b.rank
		}
		return a.ver < b.ver
	})
	if s.sys == resolve.NPM {
		latest := -1
		allPre := true
		for i, r := range ord {
			if !(r.rank >= 0 && r.pre) {
				allPre = false
			}
			for _, t := range strings.Split(r.tags, ",") {
				if t == "latest" {
					latest = i
				}
			}
		}
		if latest >= 0 && !(ord[latest].pre && !allPre) {
			l := ord[latest]
			ord = append(append(ord[:latest:latest], ord[latest+1:]...), l)
		}
	}
	sat, isRange := s.sat[req]
	var out []string
	if isRange {
		in := map[string]bool{}
		for _, v := range sat {
			in[v] = true
		}
		for _, r := range ord {
			if in[r.ver] {
				out = append(out, r.ver)
			}
		}
		return out
	}
	if s.sys == resolve.NPM {
		// not a range: the first (in npm order) whose string or tag equals it
		for _, r := range ord {
			if r.ver == req {
				return []string{r.ver}
			}
			for _, t := range strings.Split(r.tags, ",") {
				if t != "" && t == req {
					return []string{r.ver}
				}
			}
		}
		return nil
	}
	// Maven/PyPI: an unparsable requirement falls back to exact string equality
	for _, r := range ord {
		if r.ver == req {
			out = append(out, r.ver)
		}
	}
	return out
}

func (s *c12Sys) version(r c12Rec) resolve.Version {
	v := resolve.Version{VersionKey: resolve.VersionKey{PackageKey: resolve.PackageKey{System: s.sys, Name: "p"}, VersionType: resolve.Concrete, Version: r.ver}}
	if r.tags != "" {
		var as version.AttrSet
		as.SetAttr(version.Tags, r.tags)
		v.AttrSet = as
	}
	return v
}

func verStrings(vs []resolve.Version) string {
	out := make([]string, len(vs))
	for i, v := range vs {
		out[i] = v.Version
	}
	return strings.Join(out, " ")
}

// c12One evaluates one (requirement, ordered list) case through both routes.
func (s *c12Sys) one(req string, recs []c12Rec) (held bool, obs string) {
	want := strings.Join(s.expected(req, recs), " ")
	rk := resolve.VersionKey{PackageKey: resolve.PackageKey{System: s.sys, Name: "p"}, VersionType: resolve.Requirement, Version: req}
	list := make([]resolve.Version, len(recs))
	for i, r := range recs {
		list[i] = s.version(r)
	}
	got := verStrings(resolve.MatchRequirement(rk, list))
	lc := resolve.NewLocalClient()
	for _, r := range recs {
		lc.AddVersion(s.version(r), nil)
	}
	ms, err := lc.MatchingVersions(context.Background(), rk)
	got2 := verStrings(ms)
	if err != nil {
		got2 = "error: " + err.Error()
	}
	held = got == want && got2 == want
	return held, fmt.Sprintf("MatchRequirement=[%s] LocalClient.MatchingVersions=[%s] want=[%s]", got, got2, want)
}

// C12 decides the requirement-matching property.
func C12(tier string) {
	run := core.NewRun("C12", tier, c12Replay)
	maxSize := 5
	if tier == "quick" {
		maxSize = 4
	}
	run.Cov["rule"] = "per system (NPM, Maven, PyPI): every subset of size <= 5 (quick 4) of a 9-11 record alphabet (valid, equal-precedence spellings, prerelease, latest/other tags, unparsable strings), every permutation of it, x every requirement of a 10-16 entry alphabet (each operator kind, exact version, tag, unparsable text); resolve.MatchRequirement on the list and LocalClient.MatchingVersions after adding in that order must return exactly the hand-table matches in reference order. Non-trivial = list has >= 2 records and the expected result is non-empty."
	var lists, evals, nontrivial int64
	per := map[string]any{}
	for _, s := range c12Alphabets() {
		var subsets [][]int
		var rec func(start int, cur []int)
		rec = func(start int, cur []int) {
			if len(cur) >= 1 {
				// npm: at most one latest-tagged record per list (a registry has one latest)
				nl := 0
				for _, i := range cur {
					if strings.Contains(","+s.recs[i].tags+",", ",latest,") {
						nl++
					}
				}
				if nl <= 1 {
					subsets = append(subsets, append([]int(nil), cur...))
				}
			}
			if len(cur) == maxSize {
				return
			}
			for i := start; i < len(s.recs); i++ {
				rec(i+1, append(cur, i))
			}
		}
		rec(0, nil)
		var l0, e0, nt0 int64
		core.ParFor(len(subsets), func(si int) {
			sub := subsets[si]
			permute(len(sub), func(p []int) {
				recs := make([]c12Rec, len(sub))
				for k, pi := range p {
					recs[k] = s.recs[sub[pi]]
				}
				atomic.AddInt64(&l0, 1)
				for _, req := range s.reqs {
					held, obs := s.one(req, recs)
					atomic.AddInt64(&e0, 2)
					if len(recs) >= 2 && strings.Contains(obs, "want=[") && !strings.HasSuffix(obs, "want=[]") {
						atomic.AddInt64(&nt0, 1)
					}
					if !held {
						vs := make([]string, len(recs))
						for k, r := range recs {
							vs[k] = r.ver
						}
						run.Fail(core.Join(append([]string{"match", s.name, req}, vs...)...), obs)
					}
				}
			})
		})
		lists += l0
		evals += e0
		nontrivial += nt0
		per[s.name] = map[string]any{"records": len(s.recs), "requirements": len(s.reqs), "subsets": len(subsets), "ordered_lists": l0, "calls": e0}
		run.Outcome(fmt.Sprintf("%s:%d", s.name, l0))
		run.Sample(map[string]any{"system": s.name, "requirement": s.reqs[1], "list": []string{s.recs[3].ver, s.recs[1].ver, s.recs[4].ver}})
	}
	run.Cov["states"] = lists
	run.Cov["transitions"] = evals
	run.Cov["traces_validated_against_impl"] = evals
	run.Cov["evaluations"] = evals
	run.Cov["distinct_nontrivial"] = nontrivial
	run.Cov["per_system"] = per
	run.Assumptions = []string{"satisfaction and order are hand tables written in the harness, independent of util/semver", "PyPI records are final releases and one prerelease; post/dev/local candidates are outside the domain as C03 states"}
	run.Finish()
}

func c12Replay(w string) (bool, string) {
	p := core.Split(w)
	if p[0] != "match" {
		return true, "unknown"
	}
	for _, s := range c12Alphabets() {
		if s.name != p[1] {
			continue
		}
		var recs []c12Rec
		for _, v := range p[3:] {
			for _, r := range s.recs {
				if r.ver == v {
					recs = append(recs, r)
				}
			}
		}
		return s.one(p[2], recs)
	}
	return true, "unknown system"
}
