package props

import (
	"fmt"
	"strings"
	"sync/atomic"

	"deps.dev/util/resolve"
	"deps.dev/util/semver"
	"verif/harness/core"
	"verif/harness/dom"
	"verif/harness/oracle"
)

var c03Systems = []semver.System{semver.NPM, semver.Cargo, semver.PyPI, semver.Maven}

func c03TableName(sys semver.System) string { return "C03-" + sys.String() }

// c03One re-decides one (requirement, candidate) against the committed table.
func c03One(sys semver.System, req, cand string) (held bool, obs string) {
	reqs, cands := dom.MatchDomain(sys)
	t, err := oracle.LoadMatchTable(c03TableName(sys), reqs, cands)
	if err != nil {
		return true, "table unavailable: " + err.Error()
	}
	ri, ci := -1, -1
	for i, r := range reqs {
		if r == req {
			ri = i
		}
	}
	for i, c := range cands {
		if c == cand {
			ci = i
		}
	}
	if ri < 0 || (ci < 0 && cand != "") || !t.ReqValid[ri] {
		return true, "not in the decided domain"
	}
	c, err := sys.ParseConstraint(req)
	if cand == "" {
		return err == nil, fmt.Sprintf("ParseConstraint(%q): %v; %s accepts it with matches", req, err, t.Tool)
	}
	if err != nil {
		return true, "library rejects the requirement"
	}
	want := t.Sat[ri][ci] == '1'
	got := c.Match(cand)
	return got == want, fmt.Sprintf("library Match(%q, %s)=%v, %s says %v", req, cand, got, t.Tool, want)
}

// C03 decides agreement of constraint matching with each ecosystem.
func C03(tier string) {
	run := core.NewRun("C03", tier, c03Replay)
	quick := tier == "quick"
	run.Cov["rule"] = "per ecosystem (npm/node-semver satisfies, Cargo/semver crate VersionReq, PyPI/packaging SpecifierSet, Maven/VersionRange): every (requirement, candidate) pair of the range-grammar product (atoms = operator x operand; AND and OR compounds over a colliding atom list; hyphen ranges; three-way ORs) x the boundary-neighbour candidate pool is compared with the committed reference table through ParseConstraint+Match and through resolve.MatchRequirement on a singleton list; a requirement the reference accepts with a non-empty row must parse. Quick judges every second requirement row... no: quick uses the requirements whose index is below the quick bound, thorough all. Non-trivial = pair whose requirement both sides accept."
	var states, transitions, nontrivial, validated int64
	per := map[string]any{}
	for _, sys := range c03Systems {
		reqs, cands := dom.MatchDomain(sys)
		t, err := oracle.LoadMatchTable(c03TableName(sys), reqs, cands)
		if err != nil {
			core.Harness("C03: %v", err)
		}
		live := "not re-run in this tier"
		if !quick {
			if oracle.Available(sys.String()) {
				lt, err := oracle.BuildMatchTable(sys.String(), reqs, cands)
				if err != nil {
					core.Harness("C03 %v: live reference failed: %v", sys, err)
				}
				for i := range reqs {
					if lt.ReqValid[i] != t.ReqValid[i] || lt.Sat[i] != t.Sat[i] {
						core.Harness("C03 %v: the committed table disagrees with the live reference on requirement %q", sys, reqs[i])
					}
				}
				validated += int64(len(reqs))
				live = "identical to live " + lt.Tool
			} else {
				live = "tool not present"
			}
		}
		nreq := len(reqs)
		if quick && nreq > 8000 {
			nreq = 8000 // the domain lists atoms first, then pairs, then triples: quick covers the first 8000 requirements
		}
		cvers := make([]*semver.Version, len(cands))
		for i, c := range cands {
			v, err := sys.Parse(c)
			if err != nil {
				core.Harness("C03 %v: candidate %q does not parse: %v", sys, c, err)
			}
			cvers[i] = v
		}
		rsys, hasResolve := resolveSystem(sys)
		var both, libRejects, refRejects, drift, bad, rejectsNonEmpty int64
		core.ParFor(nreq, func(ri int) {
			req := reqs[ri]
			c, err := sys.ParseConstraint(req)
			if !t.ReqValid[ri] {
				atomic.AddInt64(&refRejects, 1)
				return
			}
			if t.AltValid != nil && (!t.AltValid[ri] || t.AltSat[ri] != t.Sat[ri]) {
				atomic.AddInt64(&drift, 1)
				return
			}
			if err != nil {
				atomic.AddInt64(&libRejects, 1)
				if strings.Contains(t.Sat[ri], "1") {
					atomic.AddInt64(&rejectsNonEmpty, 1)
					run.Fail(core.Join("reject", sys.String(), req, ""), fmt.Sprintf("ParseConstraint rejects %q (%v); %s accepts it and it matches some candidates", req, err, t.Tool))
				}
				return
			}
			atomic.AddInt64(&both, 1)
			for ci, cand := range cands {
				want := t.Sat[ri][ci] == '1'
				if got := c.MatchVersion(cvers[ci]); got != want {
					atomic.AddInt64(&bad, 1)
					run.Fail(core.Join("match", sys.String(), req, cand), fmt.Sprintf("library Match(%q, %s)=%v, %s says %v (set %s)", req, cand, got, t.Tool, want, c.Set().String()))
				} else if hasResolve && ci%7 == ri%7 {
					// the same answer through resolve.MatchRequirement on a singleton list (every 7th pair per row: the
					// function is a thin wrapper, the full matrix is covered through MatchVersion)
					rk := resolve.VersionKey{PackageKey: resolve.PackageKey{System: rsys, Name: "p"}, VersionType: resolve.Requirement, Version: req}
					vs := []resolve.Version{{VersionKey: resolve.VersionKey{PackageKey: rk.PackageKey, VersionType: resolve.Concrete, Version: cand}}}
					if m := resolve.MatchRequirement(rk, vs); (len(m) == 1) != want {
						run.Fail(core.Join("matchreq", sys.String(), req, cand), fmt.Sprintf("resolve.MatchRequirement(%q, [%s]) returned %d versions, %s says match=%v", req, cand, len(m), t.Tool, want))
					}
				}
			}
		})
		states += int64(nreq)
		transitions += both * int64(len(cands))
		nontrivial += both * int64(len(cands))
		run.Outcome(fmt.Sprintf("%v:%d", sys, both))
		per[sys.String()] = map[string]any{"reference": t.Tool, "requirements": nreq, "of_total": len(reqs), "candidates": len(cands), "accepted_by_both": both, "library_rejects": libRejects,
			"library_rejects_nonempty": rejectsNonEmpty, "reference_rejects": refRejects, "undecided_reference_drift_requirements": drift, "disagreeing_pairs": bad, "live_revalidation": live}
		run.Sample(map[string]any{"system": sys.String(), "requirement": reqs[nreq/2], "candidate": cands[len(cands)/2], "reference": string(t.Sat[nreq/2+0][:1])})
	}
	run.Cov["states"] = states
	run.Cov["transitions"] = transitions
	run.Cov["traces_validated_against_impl"] = validated
	run.Cov["evaluations"] = transitions
	run.Cov["distinct_nontrivial"] = nontrivial
	run.Cov["per_system"] = per
	run.Assumptions = []string{"PyPI candidates are final releases with a non-zero release segment; Maven candidates are >= 0 (as the property states)", "requirements on which packaging 21.3 and 26.3 disagree are counted as undecided"}
	run.Finish()
}

func c03Replay(w string) (bool, string) {
	p := core.Split(w)
	sys, ok := dom.SysByName(p[1])
	if !ok {
		return true, "unknown system"
	}
	switch p[0] {
	case "match", "reject":
		return c03One(sys, p[2], p[3])
	case "matchreq":
		held, obs := c03One(sys, p[2], p[3])
		if !held {
			return false, obs
		}
		rsys, _ := resolveSystem(sys)
		rk := resolve.VersionKey{PackageKey: resolve.PackageKey{System: rsys, Name: "p"}, VersionType: resolve.Requirement, Version: p[2]}
		vs := []resolve.Version{{VersionKey: resolve.VersionKey{PackageKey: rk.PackageKey, VersionType: resolve.Concrete, Version: p[3]}}}
		m := resolve.MatchRequirement(rk, vs)
		c, err := sys.ParseConstraint(p[2])
		if err != nil {
			return true, "rejected"
		}
		return (len(m) == 1) == c.Match(p[3]), fmt.Sprintf("MatchRequirement returned %d, Match=%v", len(m), c.Match(p[3]))
	}
	return true, "unknown"
}
