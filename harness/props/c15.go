package props

import (
	"encoding/json"
	"fmt"
	"os"
	"os/exec"
	"path/filepath"
	"strconv"
	"strings"
	"time"

	"deps.dev/util/maven"
	"verif/harness/core"
	"verif/harness/pom"
)

const c15Table = "C15-quick"

// GenTablesC15 computes the committed reference table of the quick domain with Maven itself.
func GenTablesC15() {
	if !pom.MavenAvailable() {
		core.Harness("gen-tables C15: the Java POM oracle is not built (java/javac or /usr/share/maven/lib missing)")
	}
	_, ls := pom.Domain(false)
	rs, err := pom.MavenBatch(ls)
	if err != nil {
		core.Harness("gen-tables C15: %v", err)
	}
	if err := pom.SaveTable(c15Table, ls, rs); err != nil {
		core.Harness("gen-tables C15: %v", err)
	}
	ok := 0
	for _, r := range rs {
		if r.Err == "" {
			ok++
		}
	}
	fmt.Printf("C15 %d lineages, %d built by Maven, %d rejected\n", len(ls), ok, len(ls)-ok)
}

func c15Witness(l pom.Lineage, want pom.Result) string {
	b, _ := json.Marshal(want)
	return core.Join("pom", l.JSON(), string(b))
}

// c15Judge compares the library's effective POM with Maven's.
func c15Judge(l pom.Lineage, want pom.Result) (held bool, obs string) {
	if want.Err != "" {
		return true, "Maven rejects the lineage: " + want.Err
	}
	got := pom.Effective(l)
	if got.Equal(want) {
		return true, got.String()
	}
	return false, "library: " + got.String() + "\n  maven:   " + want.String()
}

// C15 decides agreement of the effective POM with Maven's model builder, and termination of interpolation.
func C15(tier string) {
	run := core.NewRun("C15", tier, c15Replay)
	quick := tier == "quick"
	run.Cov["rule"] = "effective POM: every lineage within the deviation bound of three families (props: which definition of a property wins across project/ancestors/active and inactive profiles, chained and built-in expressions, inherited coordinates, expressions in every dependency field; mgmt: dependency-management injection of version/scope/exclusions/optional by key incl. type and classifier, duplicates, imports at every level incl. nested, sibling, profile-declared, property-versioned and parented BOMs; profiles: activation by default/JDK version, prefix, negation and range/OS family, name, arch, version, combinations, several profiles per file and in ancestors, what an active profile contributes) is rendered as pom.xml files, run through the library pipeline (decode, MergeProfiles, MergeParent up the lineage, Interpolate, ProcessDependencies with imports built the same way) and compared - dependencies and managed dependencies with group, artifact, version, type, classifier, scope, optional, exclusions, in order - with Maven 3.8.7's DefaultModelBuilder on the same files under JDK 11.0.8 / linux amd64 (quick: committed reference table; thorough: Maven run live on the larger domain and on the quick domain, which must reproduce the table). Lineages Maven rejects are outside the comparison. Termination: every property table over 3 (thorough 4) keys x a 13-value alphabet (literals, references, chains, self-reference, cycles, undefined keys, malformed placeholders) x every query string is interpolated in a supervised subprocess; acyclic cases must equal the substitution model (undefined placeholders left verbatim), cyclic ones must return unresolved."
	labels, ls := pom.Domain(!quick)
	var want []pom.Result
	validated := int64(0)
	live := "not re-run in this tier"
	if quick {
		t, err := pom.LoadTable(c15Table, ls)
		if err != nil {
			core.Harness("C15: %v", err)
		}
		want = t.Results
	} else {
		if !pom.MavenAvailable() {
			core.Harness("C15 thorough: the Java POM oracle is not built")
		}
		var err error
		want, err = pom.MavenBatch(ls)
		if err != nil {
			core.Harness("C15: %v", err)
		}
		validated = int64(len(ls))
		_, qls := pom.Domain(false)
		t, err := pom.LoadTable(c15Table, qls)
		if err != nil {
			core.Harness("C15: %v", err)
		}
		qr, err := pom.MavenBatch(qls)
		if err != nil {
			core.Harness("C15: %v", err)
		}
		for i := range qls {
			if !qr[i].Equal(t.Results[i]) {
				core.Harness("C15: the committed table disagrees with live Maven on %s", qls[i].JSON())
			}
		}
		validated += int64(len(qls))
		live = "committed quick table identical to live Maven"
	}
	type fam struct{ n, mavenRejects, compared, nonEmpty, bad int64 }
	fams := map[string]*fam{}
	famOf := func(label string) *fam {
		name, _, _ := strings.Cut(label, " ")
		if fams[name] == nil {
			fams[name] = &fam{}
		}
		return fams[name]
	}
	for _, lb := range labels {
		famOf(lb)
	}
	results := make([]int, len(ls)) // 0 rejected by Maven, 1 agree, 2 differ
	details := make([]string, len(ls))
	core.ParFor(len(ls), func(i int) {
		if want[i].Err != "" {
			return
		}
		held, obs := c15Judge(ls[i], want[i])
		if held {
			results[i] = 1
		} else {
			results[i] = 2
			details[i] = obs
		}
	})
	outcomes := map[string]bool{}
	var nontrivial int64
	for i := range ls {
		f := famOf(labels[i])
		f.n++
		switch results[i] {
		case 0:
			f.mavenRejects++
		case 1, 2:
			f.compared++
			if len(want[i].Deps) > 0 {
				f.nonEmpty++
				nontrivial++
			}
			outcomes[want[i].String()] = true
			if results[i] == 2 {
				f.bad++
				run.Fail(c15Witness(ls[i], want[i]), labels[i]+"\n  "+details[i])
			}
		}
	}
	per := map[string]any{}
	var compared int64
	for name, f := range fams {
		per[name] = map[string]any{"lineages": f.n, "rejected_by_maven": f.mavenRejects, "compared": f.compared, "with_dependencies": f.nonEmpty, "disagreeing": f.bad}
		compared += f.compared
	}
	run.Outcome(fmt.Sprintf("distinct effective POMs: %d", len(outcomes)))
	run.Sample(map[string]any{"label": labels[len(labels)/2], "lineage": ls[len(ls)/2], "maven": want[len(ls)/2].String()})
	// termination clause
	termTables, termEvals, termCyclic := c15Termination(run, quick)
	run.Cov["states"] = int64(len(ls)) + termTables
	run.Cov["transitions"] = compared + termEvals
	run.Cov["evaluations"] = compared + termEvals
	run.Cov["distinct_nontrivial"] = nontrivial
	run.Cov["traces_validated_against_impl"] = validated
	run.Cov["per_family"] = per
	run.Cov["distinct_effective_poms"] = len(outcomes)
	run.Cov["live_revalidation"] = live
	run.Cov["termination"] = map[string]any{"property_tables": termTables, "interpolations": termEvals, "cyclic_interpolations": termCyclic}
	run.Cov["explanation"] = "states = lineages + property tables; transitions = lineages compared with Maven + interpolations; traces_validated_against_impl = lineages built by live Maven in this run (thorough)"
	run.Assumptions = []string{"Maven 3.8.7 with validation level MINIMAL is the reference; lineages it rejects (missing version after injection, expression cycles, import cycles, malformed JDK ranges) are not compared",
		"type jar, dependency scope compile and optional=false are Maven's injected defaults and are normalised on both sides", "profile activation by property or file is outside the property's supported subset and not generated"}
	run.Finish()
}

func c15Replay(w string) (bool, string) {
	p := core.Split(w)
	switch p[0] {
	case "pom":
		l, err := pom.FromJSON(p[1])
		if err != nil {
			return true, "bad witness: " + err.Error()
		}
		var want pom.Result
		if err := json.Unmarshal([]byte(p[2]), &want); err != nil {
			return true, "bad witness: " + err.Error()
		}
		return c15Judge(l, want)
	case "term":
		return c15TermOne(p[1], p[2])
	case "hang":
		return c15TermSupervised(p[1])
	}
	return true, "unknown witness"
}

// ---------------------------------------------------------------------------------------------
// termination of interpolation

func c15Values(quick bool) []string {
	return []string{"", "x", "${a}", "${b}", "${c}", "${a}${b}", "x${b}y", "${d}", "${", "${}", "${a", "${${a}}", "}${c}{"}
}

func c15Keys(quick bool) []string {
	if quick {
		return []string{"a", "b", "c"}
	}
	return []string{"a", "b", "c", "e"}
}

// c15Model is the substitution model: placeholders are "${" up to the next "}"; defined keys are replaced by their
// (recursively substituted) values, undefined ones stay verbatim; cyclic is set when a key is met while it is being replaced.
func c15Model(s string, dict map[string]string, resolving map[string]bool) (out string, ok, cyclic bool) {
	ok = true
	var b strings.Builder
	for {
		i := strings.Index(s, "${")
		if i < 0 {
			break
		}
		j := strings.Index(s[i:], "}")
		if j < 0 {
			break
		}
		b.WriteString(s[:i])
		key := s[i+2 : i+j]
		ph := s[i : i+j+1]
		s = s[i+j+1:]
		if resolving[key] {
			return "", false, true
		}
		v, def := dict[key]
		if !def {
			b.WriteString(ph)
			ok = false
			continue
		}
		resolving[key] = true
		sub, subOK, cyc := c15Model(v, dict, resolving)
		resolving[key] = false
		if cyc {
			return "", false, true
		}
		if !subOK {
			ok = false
		}
		b.WriteString(sub)
	}
	b.WriteString(s)
	return b.String(), ok, false
}

func c15TableOf(keys []string, vals []string, idx int) map[string]string {
	d := map[string]string{}
	for _, k := range keys {
		d[k] = vals[idx%len(vals)]
		idx /= len(vals)
	}
	return d
}

// c15TermOne judges one (table, query).
func c15TermOne(tableJSON, q string) (bool, string) {
	var dict map[string]string
	if err := json.Unmarshal([]byte(tableJSON), &dict); err != nil {
		return true, "bad witness"
	}
	got, gotOK := maven.VerifInterpolating(q, dict)
	want, wantOK, cyclic := c15Model(q, dict, map[string]bool{})
	// the public path: a dependency whose version is the query
	p := maven.Project{}
	for k, v := range dict {
		p.Properties.Properties = append(p.Properties.Properties, maven.Property{Name: k, Value: v})
	}
	p.Dependencies = []maven.Dependency{{GroupID: "g", ArtifactID: "a", Version: maven.String(q)}}
	if err := p.Interpolate(); err != nil {
		return false, fmt.Sprintf("Interpolate(%s) with version %q: error %v", tableJSON, q, err)
	}
	kept := len(p.Dependencies) == 1
	if cyclic {
		if gotOK || kept {
			return false, fmt.Sprintf("interpolating(%q, %s) reports every placeholder resolved (%q, dependency kept=%v) although the table is cyclic on that path", q, tableJSON, got, kept)
		}
		if !strings.Contains(got, "${") {
			return false, fmt.Sprintf("interpolating(%q, %s) = %q: cyclic, yet no placeholder is left in place", q, tableJSON, got)
		}
		return true, "cyclic: unresolved, placeholder left"
	}
	if got != want || gotOK != wantOK {
		return false, fmt.Sprintf("interpolating(%q, %s) = (%q, %v), the substitution model gives (%q, %v)", q, tableJSON, got, gotOK, want, wantOK)
	}
	if kept != wantOK || (kept && string(p.Dependencies[0].Version) != want) {
		return false, fmt.Sprintf("Project.Interpolate with version %q over %s: dependency kept=%v, model resolved=%v value %q", q, tableJSON, kept, wantOK, want)
	}
	return true, fmt.Sprintf("(%q, %v)", got, gotOK)
}

// C15TermWorker runs tables [from, to) and reports through stdout; the cursor file names the table in progress.
func C15TermWorker(args []string) {
	quick := args[0] == "quick"
	from, _ := strconv.Atoi(args[1])
	to, _ := strconv.Atoi(args[2])
	cursor := args[3]
	keys, vals := c15Keys(quick), c15Values(quick)
	evals, cyc := 0, 0
	for t := from; t < to; t++ {
		os.WriteFile(cursor, []byte(strconv.Itoa(t)), 0o644)
		dict := c15TableOf(keys, vals, t)
		tj, _ := json.Marshal(dict)
		for _, q := range append(append([]string{}, vals...), "${e}${a}", "${a}-${b}-${c}") {
			held, obs := c15TermOne(string(tj), q)
			evals++
			if _, _, c := c15Model(q, dict, map[string]bool{}); c {
				cyc++
			}
			if !held {
				fmt.Printf("FAIL\t%s\t%s\t%s\n", tj, strconv.Quote(q), strconv.Quote(obs))
			}
		}
	}
	os.WriteFile(cursor, []byte("done"), 0o644)
	fmt.Printf("DONE\t%d\t%d\n", evals, cyc)
}

func c15Termination(run *core.Run, quick bool) (tables, evals, cyclic int64) {
	keys, vals := c15Keys(quick), c15Values(quick)
	total := 1
	for range keys {
		total *= len(vals)
	}
	tier := "thorough"
	if quick {
		tier = "quick"
	}
	dir, err := os.MkdirTemp(filepath.Join(core.Root, ".cache"), "c15term")
	if err != nil {
		core.Harness("C15: %v", err)
	}
	defer os.RemoveAll(dir)
	w := core.Workers
	type res struct {
		out  string
		err  error
		from int
		cur  string
	}
	ch := make(chan res, w)
	chunk := (total + w - 1) / w
	n := 0
	for from := 0; from < total; from += chunk {
		to := from + chunk
		if to > total {
			to = total
		}
		n++
		go func(from, to int) {
			cursor := filepath.Join(dir, fmt.Sprintf("cur%d", from))
			cmd := exec.Command(os.Args[0], "C15", "--term", tier, strconv.Itoa(from), strconv.Itoa(to), cursor)
			cmd.Env = append(os.Environ(), "GOMAXPROCS=2")
			done := make(chan struct{})
			var out []byte
			var err error
			go func() { out, err = cmd.Output(); close(done) }()
			select {
			case <-done:
			case <-time.After(10 * time.Minute):
				cmd.Process.Kill()
				<-done
				err = fmt.Errorf("timeout")
			}
			cur, _ := os.ReadFile(cursor)
			ch <- res{string(out), err, from, string(cur)}
		}(from, to)
	}
	for i := 0; i < n; i++ {
		r := <-ch
		for _, line := range strings.Split(r.out, "\n") {
			f := strings.Split(line, "\t")
			switch f[0] {
			case "FAIL":
				q, _ := strconv.Unquote(f[2])
				obs, _ := strconv.Unquote(f[3])
				run.Fail(core.Join("term", f[1], q), obs)
			case "DONE":
				e, _ := strconv.Atoi(f[1])
				c, _ := strconv.Atoi(f[2])
				evals += int64(e)
				cyclic += int64(c)
			}
		}
		if r.err != nil || r.cur != "done" {
			t, convErr := strconv.Atoi(r.cur)
			if convErr != nil {
				core.Harness("C15 termination worker from %d failed before its first table: %v", r.from, r.err)
			}
			tj, _ := json.Marshal(c15TableOf(keys, vals, t))
			run.Fail(core.Join("hang", string(tj)), fmt.Sprintf("interpolation over the property table %s did not return (worker: %v)", tj, r.err))
		}
	}
	return int64(total), evals, cyclic
}

// c15TermSupervised replays a table that killed or hung a worker, in a subprocess.
func c15TermSupervised(tableJSON string) (bool, string) {
	cmd := exec.Command(os.Args[0], "C15", "--term-one", tableJSON)
	done := make(chan error, 1)
	go func() { done <- cmd.Run() }()
	select {
	case err := <-done:
		if err != nil {
			return false, "interpolation over " + tableJSON + " crashed: " + err.Error()
		}
		return true, "returned"
	case <-time.After(60 * time.Second):
		cmd.Process.Kill()
		return false, "interpolation over " + tableJSON + " did not return within 60 s"
	}
}

// C15TermOneCmd interpolates every query over one table (used by the supervised replay).
func C15TermOneCmd(tableJSON string) {
	for _, q := range append(c15Values(false), "${e}${a}", "${a}-${b}-${c}") {
		c15TermOne(tableJSON, q)
	}
}
