package props

import (
	"context"
	"errors"
	"fmt"
	"sort"
	"strconv"
	"strings"

	"deps.dev/util/resolve"
	"deps.dev/util/resolve/dep"
	"deps.dev/util/resolve/version"
	"verif/harness/bfs"
	"verif/harness/core"
)

// c14Alpha is the operation alphabet of one system.
type c14Alpha struct {
	sys   resolve.System
	name  string
	keys  []resolve.VersionKey // addable concrete keys, listed in ascending ecosystem order per package
	attrs []string             // attribute choices: "", "latest", "blocked", "deleted", "redirect"
	reqs  [][]c14Req           // requirement lists
	// match: requirement string -> set of version strings satisfying it (hand table)
	match map[string]map[string]bool
	ops   []c14Op
}

type c14Req struct {
	pkg, ver string
	dev      bool
}

type c14Op struct {
	key  int
	attr string
	req  int
}

func (o c14Op) String(a *c14Alpha) string {
	k := a.keys[o.key]
	var rs []string
	for _, r := range a.reqs[o.req] {
		s := r.pkg + "@" + r.ver
		if r.dev {
			s = "dev|" + s
		}
		rs = append(rs, s)
	}
	return fmt.Sprintf("Add(%s@%s attr=%q deps=[%s])", k.Name, k.Version, o.attr, strings.Join(rs, ","))
}

func c14Alphabet(sys resolve.System, quick bool) *c14Alpha {
	a := &c14Alpha{sys: sys, name: map[resolve.System]string{resolve.NPM: "NPM", resolve.Maven: "Maven", resolve.PyPI: "PyPI"}[sys]}
	var vers []string
	switch sys {
	case resolve.NPM:
		vers = []string{"1.0.0", "2.0.0-rc.1", "2.0.0"}
		a.match = map[string]map[string]bool{
			"*":            {"1.0.0": true, "2.0.0": true},
			"^1.0.0":       {"1.0.0": true},
			">=2.0.0-rc.0": {"2.0.0-rc.1": true, "2.0.0": true},
			"3.x":          {},
		}
		a.attrs = []string{"", "latest", "blocked", "deleted"}
		a.reqs = [][]c14Req{nil, {{"b", "^1.0.0", false}}, {{"a", "*", true}, {"c", "3.x", false}, {"B", "*", false}, {"b", "*", false}}}
	case resolve.Maven:
		vers = []string{"1.0", "2.0-rc-1", "2.0"}
		a.match = map[string]map[string]bool{
			"[1.0,2.0)": {"1.0": true, "2.0-rc-1": true},
			"[2.0,)":    {"2.0": true},
			"1.0":       {"1.0": true, "2.0-rc-1": true, "2.0": true},
			"[3.0]":     {},
		}
		a.attrs = []string{"", "redirect", "blocked", "deleted"}
		a.reqs = [][]c14Req{nil, {{"g:b", "[1.0,2.0)", false}}, {{"g:c", "[3.0]", false}, {"g:b", "2.0", false}, {"g:B", "1.0", false}, {"g:a", "1.0", false}}}
	case resolve.PyPI:
		vers = []string{"1.0", "2.0rc1", "2.0"}
		a.match = map[string]map[string]bool{
			"":         {"1.0": true, "2.0": true},
			"==1.0":    {"1.0": true},
			">=2.0rc1": {"2.0rc1": true, "2.0": true},
			">3":       {},
		}
		a.attrs = []string{"", "redirect", "blocked", "deleted"}
		a.reqs = [][]c14Req{nil, {{"b", "==1.0", false}}, {{"c", ">3", false}, {"b", ">=2.0rc1", false}, {"B", "", false}, {"a", "", false}}}
	}
	pk := func(n string) string {
		if sys == resolve.Maven {
			return "g:" + n
		}
		return n
	}
	nver := len(vers)
	if quick {
		nver = 2
		if sys == resolve.NPM {
			// two releases: a requirement then matches both, so the place of the latest-tagged one is observable
			vers = []string{vers[0], vers[2]}
		}
	}
	for _, p := range []string{"a", "b"} {
		for i, v := range vers {
			if i >= nver && (p == "b" || quick) {
				continue
			}
			a.keys = append(a.keys, resolve.VersionKey{PackageKey: resolve.PackageKey{System: sys, Name: pk(p)}, VersionType: resolve.Concrete, Version: v})
		}
	}
	for k := range a.keys {
		for _, at := range a.attrs {
			for r := range a.reqs {
				a.ops = append(a.ops, c14Op{k, at, r})
			}
		}
	}
	return a
}

// c14Attr builds the attribute set of an operation. The latest tag is written alone for package b and between two
// other tags for package a, so that both spellings of a tag list occur in every history.
func c14Attr(s string, vk resolve.VersionKey) version.AttrSet {
	var as version.AttrSet
	switch s {
	case "latest":
		if strings.HasSuffix(vk.Name, "a") {
			as.SetAttr(version.Tags, "stable,latest,lts")
		} else {
			as.SetAttr(version.Tags, "latest")
		}
	case "blocked":
		as.SetAttr(version.Blocked, "")
	case "deleted":
		as.SetAttr(version.Deleted, "")
	case "redirect":
		as.SetAttr(version.Redirect, "elsewhere")
	}
	return as
}

func (a *c14Alpha) deps(r int) []resolve.RequirementVersion {
	var out []resolve.RequirementVersion
	for _, q := range a.reqs[r] {
		t := dep.NewType()
		if q.dev {
			t = dep.NewType(dep.Dev)
		}
		out = append(out, resolve.RequirementVersion{VersionKey: resolve.VersionKey{PackageKey: resolve.PackageKey{System: a.sys, Name: q.pkg}, VersionType: resolve.Requirement, Version: q.ver}, Type: t})
	}
	return out
}

// model is the boring reference: last non-deleted addition per key.
type c14Model struct {
	entry map[resolve.VersionKey]c14Op
	pkgs  map[string]bool
}

// expectedDeps gives the requirement list in the order the client must report.
func (a *c14Alpha) expectedDeps(r int) []string {
	qs := append([]c14Req(nil), a.reqs[r]...)
	if a.sys == resolve.NPM {
		// npm resolution order: dev-only last; lower-case name order; on a tie lower case before upper case
		sort.SliceStable(qs, func(i, j int) bool {
			if qs[i].dev != qs[j].dev {
				return qs[j].dev
			}
			li, lj := strings.ToLower(qs[i].pkg), strings.ToLower(qs[j].pkg)
			if li != lj {
				return li < lj
			}
			return qs[i].pkg > qs[j].pkg
		})
	}
	var out []string
	for _, q := range qs {
		out = append(out, fmt.Sprintf("%s@%s dev=%v", q.pkg, q.ver, q.dev))
	}
	return out
}

func depStrings(ds []resolve.RequirementVersion) []string {
	var out []string
	for _, d := range ds {
		out = append(out, fmt.Sprintf("%s@%s dev=%v", d.Name, d.Version, d.Type.HasAttr(dep.Dev)))
	}
	return out
}

// c14Run replays ops on a fresh client; returns the state key and, if check,
// the list of disagreements with the model.
func (a *c14Alpha) run(path []int, check bool) (string, []string) {
	ctx := context.Background()
	lc := resolve.NewLocalClient()
	m := c14Model{entry: map[resolve.VersionKey]c14Op{}, pkgs: map[string]bool{}}
	for _, oi := range path {
		op := a.ops[oi]
		vk := a.keys[op.key]
		lc.AddVersion(resolve.Version{VersionKey: vk, AttrSet: c14Attr(op.attr, vk)}, a.deps(op.req))
		if op.attr != "deleted" {
			m.entry[vk] = op
			m.pkgs[vk.Name] = true
			for _, q := range a.reqs[op.req] {
				m.pkgs[q.pkg] = true
			}
		}
	}
	// state key: exact stored order of every package list + attrs + requirements of every alphabet key
	var sb strings.Builder
	var pkNames []string
	for pk := range lc.PackageVersions {
		pkNames = append(pkNames, pk.Name)
	}
	sort.Strings(pkNames)
	for _, n := range pkNames {
		sb.WriteString(n + ":[")
		for _, v := range lc.PackageVersions[resolve.PackageKey{System: a.sys, Name: n}] {
			sb.WriteString(v.Version + v.AttrSet.String() + " ")
		}
		sb.WriteString("]")
	}
	for _, vk := range a.keys {
		ds, err := lc.Requirements(ctx, vk)
		if err != nil {
			sb.WriteString("|-")
		} else {
			sb.WriteString("|" + strings.Join(depStrings(ds), ","))
		}
	}
	key := sb.String()
	if !check {
		return key, nil
	}
	var bad []string
	fail := func(format string, args ...any) { bad = append(bad, fmt.Sprintf(format, args...)) }
	// Version / Requirements for every alphabet key and a never-added key
	probeKeys := append(append([]resolve.VersionKey(nil), a.keys...),
		resolve.VersionKey{PackageKey: a.keys[0].PackageKey, VersionType: resolve.Concrete, Version: "9.9.9"},
		resolve.VersionKey{PackageKey: resolve.PackageKey{System: a.sys, Name: "never"}, VersionType: resolve.Concrete, Version: a.keys[0].Version},
		// the text of an addable key under another version type: a key of its own, never added
		resolve.VersionKey{PackageKey: a.keys[0].PackageKey, VersionType: resolve.Requirement, Version: a.keys[0].Version},
		resolve.VersionKey{PackageKey: a.keys[len(a.keys)-1].PackageKey, VersionType: resolve.Requirement, Version: a.keys[len(a.keys)-1].Version})
	for _, vk := range probeKeys {
		v, err := lc.Version(ctx, vk)
		op, added := m.entry[vk]
		switch {
		case !added && err == nil:
			fail("Version(%s@%s) found although never added (non-deleted)", vk.Name, vk.Version)
		case !added && !errors.Is(err, resolve.ErrNotFound):
			fail("Version(%s@%s) error is not ErrNotFound: %v", vk.Name, vk.Version, err)
		case added && err != nil:
			fail("Version(%s@%s) not found after addition: %v", vk.Name, vk.Version, err)
		case added:
			if got, want := v.AttrSet.String(), c14Attr(op.attr, vk).String(); got != want {
				fail("Version(%s@%s) attributes %s, last addition had %s", vk.Name, vk.Version, got, want)
			}
			if v.VersionKey != vk {
				fail("Version(%s@%s) returned key %v", vk.Name, vk.Version, v.VersionKey)
			}
		}
		ds, err := lc.Requirements(ctx, vk)
		switch {
		case !added && err == nil:
			fail("Requirements(%s@%s) found although never added", vk.Name, vk.Version)
		case !added && !errors.Is(err, resolve.ErrNotFound):
			fail("Requirements(%s@%s) error is not ErrNotFound: %v", vk.Name, vk.Version, err)
		case added && err != nil:
			fail("Requirements(%s@%s) missing: %v", vk.Name, vk.Version, err)
		case added:
			if got, want := strings.Join(depStrings(ds), ","), strings.Join(a.expectedDeps(op.req), ","); got != want {
				fail("Requirements(%s@%s) = [%s], last addition gave [%s] (npm resolution order)", vk.Name, vk.Version, got, want)
			}
		}
	}
	// Versions for every package that could exist
	allPkgs := map[string]bool{"never": true}
	for _, vk := range a.keys {
		allPkgs[vk.Name] = true
	}
	for _, rl := range a.reqs {
		for _, q := range rl {
			allPkgs[q.pkg] = true
		}
	}
	var names []string
	for n := range allPkgs {
		names = append(names, n)
	}
	sort.Strings(names)
	for _, n := range names {
		pk := resolve.PackageKey{System: a.sys, Name: n}
		vs, err := lc.Versions(ctx, pk)
		if !m.pkgs[n] {
			if err == nil {
				fail("Versions(%s) known although never added nor mentioned", n)
			} else if !errors.Is(err, resolve.ErrNotFound) {
				fail("Versions(%s) error is not ErrNotFound: %v", n, err)
			}
			continue
		}
		if err != nil {
			fail("Versions(%s) unknown although added or mentioned in a requirement: %v", n, err)
			continue
		}
		// expected: added keys of that package in ascending order; npm: latest-tagged last unless prerelease while releases exist
		var want []string
		latest := ""
		for _, vk := range a.keys {
			if vk.Name != n {
				continue
			}
			if op, ok := m.entry[vk]; ok {
				want = append(want, vk.Version)
				if op.attr == "latest" {
					latest = vk.Version // ascending scan: the highest tagged one is found last
				}
			}
		}
		if a.sys == resolve.NPM && latest != "" {
			isPre := strings.Contains(latest, "-")
			allPre := true
			for _, w := range want {
				if !strings.Contains(w, "-") {
					allPre = false
				}
			}
			if !(isPre && !allPre) {
				var w2 []string
				for _, w := range want {
					if w != latest {
						w2 = append(w2, w)
					}
				}
				want = append(w2, latest)
			}
		}
		var got []string
		for _, v := range vs {
			got = append(got, v.Version)
		}
		// listing: ascending order; for npm the position of the latest-tagged version is left open here
		// (the property fixes it only for requirement matching), everything else must be ascending.
		strip := func(l []string) string {
			var o []string
			for _, x := range l {
				if a.sys != resolve.NPM || x != latest {
					o = append(o, x)
				}
			}
			return strings.Join(o, " ")
		}
		if len(got) != len(want) || strip(got) != strip(want) {
			fail("Versions(%s) = %v, want %v", n, got, want)
		}
		// MatchingVersions for each requirement of the hand table
		for req, sat := range a.match {
			ms, err := lc.MatchingVersions(ctx, resolve.VersionKey{PackageKey: pk, VersionType: resolve.Requirement, Version: req})
			if err != nil {
				fail("MatchingVersions(%s@%q): %v", n, req, err)
				continue
			}
			var gm, wm []string
			for _, v := range ms {
				gm = append(gm, v.Version)
			}
			for _, w := range want {
				if sat[w] {
					wm = append(wm, w)
				}
			}
			if strings.Join(gm, " ") != strings.Join(wm, " ") {
				fail("MatchingVersions(%s@%q) = %v, want %v", n, req, gm, wm)
			}
		}
	}
	if _, err := lc.MatchingVersions(ctx, resolve.VersionKey{PackageKey: resolve.PackageKey{System: a.sys, Name: "never"}, VersionType: resolve.Requirement, Version: "*"}); err == nil {
		fail("MatchingVersions(never) succeeded")
	}
	return key, bad
}

var c14Systems = []resolve.System{resolve.NPM, resolve.Maven, resolve.PyPI}

// c14Names lists the alphabets: one per system, and a second npm one whose package has only prereleases and a
// version string that is not a semver at all (npm allows any string): whether "releases exist" for the place of the
// latest-tagged prerelease then hinges on how the unparsable version is counted.
var c14Names = []string{"NPM", "Maven", "PyPI", "NPM-pre"}

func c14AlphabetNamed(name string, quick bool) *c14Alpha {
	for _, s := range c14Systems {
		if a := c14Alphabet(s, quick); a.name == name {
			return a
		}
	}
	if name != "NPM-pre" {
		return nil
	}
	a := &c14Alpha{sys: resolve.NPM, name: name}
	a.match = map[string]map[string]bool{
		">=1.0.0-0": {"1.0.0-a": true, "1.0.0-b": true},
		"*":         {},
	}
	a.attrs = []string{"", "latest"}
	a.reqs = [][]c14Req{nil}
	for _, v := range []string{"1.0.0-a", "1.0.0-b", "nightly"} { // ascending: semvers first, then other strings as text
		a.keys = append(a.keys, resolve.VersionKey{PackageKey: resolve.PackageKey{System: resolve.NPM, Name: "a"}, VersionType: resolve.Concrete, Version: v})
	}
	for k := range a.keys {
		for _, at := range a.attrs {
			a.ops = append(a.ops, c14Op{k, at, 0})
		}
	}
	return a
}

// C14 decides the LocalClient property by BFS to closure.
func C14(tier string) {
	run := core.NewRun("C14", tier, c14Replay)
	quick := tier == "quick"
	if quick {
		run.SetBudget(60e9)
	} else {
		run.SetBudget(1200e9)
	}
	run.Cov["rule"] = "per system: breadth-first search to closure over LocalClient states (state key = exact stored order and attributes of every package list + requirements of every key); transitions = AddVersion(key, attr, deps) for every operation of the alphabet applied to every reachable state; in every state Version/Versions/Requirements/MatchingVersions for every key/package/requirement of the alphabet and never-added ones are compared with a map model"
	var states, transitions int64
	perSys := map[string]any{}
	for _, an := range c14Names {
		a := c14AlphabetNamed(an, quick)
		res := bfs.Search(bfs.Spec{
			NumOps: len(a.ops),
			Run: func(path []int, check bool) string {
				key, bad := a.run(path, check)
				for _, b := range bad {
					clause := b
					if i := strings.IndexByte(b, '('); i > 0 {
						clause = b[:i]
					}
					// one witness per (history, clause): the history is the replay artefact
					run.Fail(core.Join(append([]string{"hist", a.name, strconv.FormatBool(quick), clause}, pathStrings(path)...)...), b+"\n  history: "+a.describe(path))
				}
				return key
			},
			Stop: func() bool { return run.OutOfTime("C14 "+a.name+" BFS") || run.Violations() > 500 },
		})
		if !res.Closed {
			run.Cap(fmt.Sprintf("%s: search stopped at depth %d with %d states before closure", a.name, res.Depth, res.States))
		}
		states += int64(res.States)
		transitions += res.Transitions
		perSys[a.name] = map[string]any{"operations": len(a.ops), "keys": len(a.keys), "states": res.States, "transitions": res.Transitions, "max_depth": res.Depth, "closure_reached": res.Closed}
		run.Outcome(fmt.Sprintf("%s:%d", a.name, res.States))
		// a sample: the deepest path
		var deepest []int
		for _, p := range res.Paths {
			if len(p) > len(deepest) {
				deepest = p
			}
		}
		run.Sample(map[string]any{"system": a.name, "history": a.describe(deepest)})
	}
	run.Cov["states"] = states
	run.Cov["transitions"] = transitions
	run.Cov["traces_validated_against_impl"] = transitions
	run.Cov["evaluations"] = transitions
	run.Cov["distinct_nontrivial"] = states
	run.Cov["per_system"] = perSys
	run.Cov["explanation"] = "closure makes the result independent of history length: every state reachable by any number of AddVersion calls over the alphabet was visited and every operation applied to it"
	run.Assumptions = []string{"alphabet: 2 packages x 2-3 versions (one prerelease) x 4 attribute choices x 3-4 requirement lists per system", "a Deleted-flagged addition is a no-op in the model"}
	run.Finish()
}

func pathStrings(p []int) []string {
	out := make([]string, len(p))
	for i, x := range p {
		out[i] = strconv.Itoa(x)
	}
	return out
}

func (a *c14Alpha) describe(path []int) string {
	var parts []string
	for _, oi := range path {
		parts = append(parts, a.ops[oi].String(a))
	}
	return strings.Join(parts, "; ")
}

func c14Replay(w string) (bool, string) {
	p := core.Split(w)
	if p[0] != "hist" {
		return true, "unknown"
	}
	quick, _ := strconv.ParseBool(p[2])
	a := c14AlphabetNamed(p[1], quick)
	if a == nil {
		return true, "unknown alphabet"
	}
	var path []int
	for _, s := range p[4:] {
		x, err := strconv.Atoi(s)
		if err != nil || x >= len(a.ops) {
			return true, "bad path"
		}
		path = append(path, x)
	}
	_, bad := a.run(path, true)
	var rel []string
	for _, b := range bad {
		if strings.HasPrefix(b, p[3]+"(") {
			rel = append(rel, b)
		}
	}
	return len(rel) == 0, a.describe(path) + " => " + strings.Join(rel, "; ")
}
