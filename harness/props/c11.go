package props

import (
	"fmt"
	"strings"

	"deps.dev/util/semver"
	"verif/harness/core"
	"verif/harness/dom"
)

var c11Systems = []semver.System{semver.DefaultSystem, semver.NPM, semver.Cargo, semver.Go, semver.NuGet}

// c11One checks the round trip of one constraint on the given versions; it
// returns (clause, version, text) failures.
func c11One(sys semver.System, cs string, versions []string) []c09Fail {
	c, err := sys.ParseConstraint(cs)
	if err != nil {
		return nil
	}
	var fails []c09Fail
	s := c.Set().String()
	c2, err := sys.ParseSetConstraint(s)
	if err != nil {
		return []c09Fail{{"parse", "", fmt.Sprintf("parse: set text %s of constraint %q does not parse: %v", s, cs, err)}}
	}
	if s2 := c2.Set().String(); s2 != s {
		fails = append(fails, c09Fail{"print", "", fmt.Sprintf("print: %s parses to a set that prints as %s", s, s2)})
	}
	for _, vs := range versions {
		v, err := sys.Parse(vs)
		if err != nil || v.IsWildcard() {
			continue
		}
		a, b := c.MatchVersionPrerelease(v), c2.MatchVersionPrerelease(v)
		if a != b {
			fails = append(fails, c09Fail{"match", vs, fmt.Sprintf("match: %s matched by constraint %q = %v, by its set text %s = %v", vs, cs, a, s, b)})
		}
	}
	return fails
}

// C11 decides the set text round-trip property.
func C11(tier string) {
	run := core.NewRun("C11", tier, c11Replay)
	level := 1
	if tier == "quick" {
		level = 0
	}
	run.Cov["rule"] = "per system (Default, NPM, Cargo, Go, NuGet): every constraint of the §6.5 domain accepted by ParseConstraint; Set().String() must parse with ParseSetConstraint, print identically, and match the same versions under MatchVersionPrerelease over the whole boundary-version pool of the system (neighbours of every bound of every constraint, minimum version, very large version). Non-trivial = set text differs from the constraint text."
	var states, transitions, nontrivial int64
	perSys := map[string]any{}
	for _, sys := range c11Systems {
		d, rejected := buildSetDomain(sys, level, dom.RoundTripExtras(sys)...)
		n := len(d.cons)
		if n < 20 {
			core.Harness("C11 %v: constraint domain collapsed (%d)", sys, n)
		}
		nt := 0
		texts := map[string]bool{}
		for i := range d.cons {
			t := d.cons[i].Set().String()
			texts[t] = true
			if t != d.cstr[i] {
				nt++
			}
		}
		core.ParFor(n, func(i int) {
			for _, f := range c11One(sys, d.cstr[i], d.pool) {
				run.Fail(core.Join("rt", sys.String(), d.cstr[i], f.clause, f.version), f.text)
			}
		})
		for t := range texts {
			run.Outcome(sys.String() + t)
		}
		states += int64(n)
		transitions += int64(n) * int64(len(d.pool)+2)
		nontrivial += int64(nt)
		inf := 0
		for t := range texts {
			if strings.Contains(t, "∞") {
				inf++
			}
		}
		perSys[sys.String()] = map[string]any{"constraints": n, "rejected_by_parse": rejected, "distinct_set_texts": len(texts), "set_texts_with_infinity": inf, "pool_versions": len(d.pool)}
		run.Sample(map[string]any{"system": sys.String(), "constraint": d.cstr[n/2], "set_text": d.cons[n/2].Set().String()})
	}
	run.Cov["states"] = states
	run.Cov["transitions"] = transitions
	run.Cov["traces_validated_against_impl"] = states
	run.Cov["evaluations"] = transitions
	run.Cov["distinct_nontrivial"] = nontrivial
	run.Cov["per_system"] = perSys
	run.Assumptions = []string{"constraint and version alphabets of DESIGN §6.5"}
	run.Finish()
}

func c11Replay(w string) (bool, string) {
	p := core.Split(w)
	sys, ok := dom.SysByName(p[1])
	if !ok || p[0] != "rt" {
		return true, "unknown"
	}
	var vs []string
	if p[4] != "" {
		vs = []string{p[4]}
	}
	var texts []string
	for _, f := range c11One(sys, p[2], vs) {
		if f.clause == p[3] && f.version == p[4] {
			texts = append(texts, f.text)
		}
	}
	return len(texts) == 0, strings.Join(texts, "\n")
}
