package props

import (
	"fmt"
	"sort"
	"strings"
	"sync/atomic"
	"time"

	"deps.dev/util/resolve"
	"deps.dev/util/resolve/dep"
	pypires "deps.dev/util/resolve/pypi"
	"verif/harness/core"
	"verif/harness/univ"
)

type c08Stats struct{ impossible, backtrackLike, markerFalse, extrasUsed, prerelease, multiNode int64 }

func pypiMarkerTruth(text string, extras map[string]bool) (bool, bool) {
	for _, m := range univ.PyPIMarkers {
		if m.Text == text {
			return m.Truth(extras), true
		}
	}
	return false, false
}

func pypiIsPre(v string) bool { return strings.Contains(v, "rc") }

func pypiReqNamesPre(req string) bool { return strings.Contains(req, "rc") }

// c08Check resolves root in u with the PyPI resolver and checks the solution invariants.
func c08Check(u univ.Universe, root [2]string, st *c08Stats) (fails []string, outcome string) {
	lc := u.Client(nil)
	g, err := pypires.NewResolver(lc).Resolve(ctxBG, u.VK(root[0], root[1]))
	if err != nil {
		return nil, "error:" + firstLineOf(err.Error())
	}
	if g.Error != "" {
		if st != nil {
			atomic.AddInt64(&st.impossible, 1)
		}
		return nil, "graph-error" // the property only constrains graphs returned without a graph-level error
	}
	g.Canon() // deterministic node/edge order for reporting (the resolver emits edges in map order)
	fail := func(clause, msg string) { fails = append(fails, clause+": "+msg+"\n  graph: "+dumpGraphFull(g)) }
	n := len(g.Nodes)
	if n == 0 {
		fail("root", "empty graph")
		return fails, "empty"
	}
	if n >= 3 && st != nil {
		atomic.AddInt64(&st.multiNode, 1)
	}
	out := make([][]resolve.Edge, n)
	in := make([][]resolve.Edge, n)
	for _, e := range g.Edges {
		out[e.From] = append(out[e.From], e)
		in[e.To] = append(in[e.To], e)
	}
	// root preserved; one version per package
	if g.Nodes[0].Version.Name != root[0] || g.Nodes[0].Version.Version != root[1] {
		fail("root", fmt.Sprintf("node 0 is %s@%s, the root is %s@%s", g.Nodes[0].Version.Name, g.Nodes[0].Version.Version, root[0], root[1]))
	}
	byPkg := map[string]int{}
	for i, nd := range g.Nodes {
		if j, dup := byPkg[nd.Version.Name]; dup {
			fail("unique", fmt.Sprintf("package %s occurs as %s and %s", nd.Version.Name, g.Nodes[j].Version.Version, nd.Version.Version))
		}
		byPkg[nd.Version.Name] = i
		if _, ok := u.Find(nd.Version.Name, nd.Version.Version); !ok {
			fail("node", fmt.Sprintf("node %s@%s is not in the universe", nd.Version.Name, nd.Version.Version))
		}
	}
	// extras requested on each node = union over incoming edges (the root has none)
	extraX := make([]map[string]bool, n)
	preAllowed := make([]bool, n)
	for i := range g.Nodes {
		extraX[i] = map[string]bool{}
		for _, e := range in[i] {
			if x, ok := e.Type.GetAttr(dep.EnabledDependencies); ok {
				for _, name := range strings.Split(x, ",") {
					if name != "" {
						extraX[i][name] = true
					}
				}
			}
		}
		// pip (resolvelib 0.7, the modelled release) keeps the requirements of a candidate it later replaces in the
		// criterion of the required package, so a prerelease specifier met on the way can legitimately admit a
		// prerelease even if the requiring version is not in the final graph: any such requirement in the
		// universe counts.
		for _, v := range u.Vers {
			for _, r := range v.Reqs {
				if r.Pkg == g.Nodes[i].Version.Name && pypiReqNamesPre(r.Ver) {
					preAllowed[i] = true
				}
			}
		}
	}
	for i, nd := range g.Nodes {
		rec, _ := u.Find(nd.Version.Name, nd.Version.Version)
		for _, r := range rec.Reqs {
			active := true
			if r.Env != "" {
				t, known := pypiMarkerTruth(r.Env, extraX[i])
				if !known {
					continue
				}
				active = t
			}
			// edges from this node that stem from this requirement
			var edges []resolve.Edge
			for _, e := range out[i] {
				env, _ := e.Type.GetAttr(dep.Environment)
				if g.Nodes[e.To].Version.Name == r.Pkg && e.Requirement == r.Ver && env == r.Env {
					edges = append(edges, e)
				}
			}
			if !active {
				if st != nil {
					atomic.AddInt64(&st.markerFalse, 1)
				}
				if len(edges) > 0 {
					fail("marker-false", fmt.Sprintf("%s@%s requires %s%q only under marker %q, which is false here (extras requested: %v), but the graph has the edge", rec.Pkg, rec.Ver, r.Pkg, r.Ver, r.Env, extraX[i]))
				}
				continue
			}
			if len(edges) == 0 {
				fail("requirement", fmt.Sprintf("%s@%s requires %s%q (marker %q true, extras requested: %v) but there is no edge for it", rec.Pkg, rec.Ver, r.Pkg, r.Ver, r.Env, extraX[i]))
				continue
			}
			for _, e := range edges {
				tv := g.Nodes[e.To].Version.Version
				ok := univ.PyPISat[r.Ver][tv]
				if r.Pkg == root[0] {
					// a requirement on the root package is met by the root version itself
					ok = univ.PyPISat[r.Ver][tv] && tv == root[1]
				}
				if ok && pypiIsPre(tv) && !preAllowed[e.To] {
					// pip's prerelease rule: only if a requirement names a prerelease, or no final release satisfies
					finalExists := false
					for _, v := range u.Vers {
						if v.Pkg == r.Pkg && !pypiIsPre(v.Ver) && univ.PyPISat[r.Ver][v.Ver] {
							finalExists = true
						}
					}
					if finalExists {
						ok = false
					}
				}
				if pypiIsPre(tv) && st != nil {
					atomic.AddInt64(&st.prerelease, 1)
				}
				if !ok {
					fail("satisfy", fmt.Sprintf("edge %s@%s -> %s@%s does not satisfy %q under pip's rules", rec.Pkg, rec.Ver, r.Pkg, tv, r.Ver))
				}
				if r.Extras != "" && st != nil {
					atomic.AddInt64(&st.extrasUsed, 1)
				}
			}
		}
		// no edge without a requirement behind it
		for _, e := range out[i] {
			env, _ := e.Type.GetAttr(dep.Environment)
			found := false
			for _, r := range rec.Reqs {
				if g.Nodes[e.To].Version.Name == r.Pkg && e.Requirement == r.Ver && env == r.Env {
					found = true
				}
			}
			if !found {
				fail("edge", fmt.Sprintf("edge %s@%s -> %s@%s (%q, marker %q) corresponds to no requirement of the dependent version", rec.Pkg, rec.Ver, g.Nodes[e.To].Version.Name, g.Nodes[e.To].Version.Version, e.Requirement, env))
			}
		}
	}
	// reachability
	seen := make([]bool, n)
	seen[0] = true
	stack := []int{0}
	for len(stack) > 0 {
		x := stack[len(stack)-1]
		stack = stack[:len(stack)-1]
		for _, e := range out[x] {
			if !seen[e.To] {
				seen[e.To] = true
				stack = append(stack, int(e.To))
			}
		}
	}
	for i, s := range seen {
		if !s {
			fail("reach", fmt.Sprintf("node %d %s@%s is not reachable from the root", i, g.Nodes[i].Version.Name, g.Nodes[i].Version.Version))
		}
	}
	return fails, fmt.Sprintf("nodes=%d", n)
}

// C08 decides the PyPI solution property.
func C08(tier string) {
	run := core.NewRun("C08", tier, c08Replay)
	quick := tier == "quick"
	dev := 3
	if quick {
		dev = 2
		run.SetBudget(150 * time.Second)
	} else {
		run.SetBudget(2400 * time.Second)
	}
	run.Cov["rule"] = "all PyPI universes within the deviation bound from the empty base and (one deviation fewer) from the conflict template of DESIGN §6.6(c) (requirement slots over ==, >=, <, !=, ~=, a prerelease specifier and the empty specifier, incl. requirements on the root package; decorations: true/false/extra-dependent markers, requested extra), plus focused families (markers+extras on the template, specifiers on one package from three dependents), every version with requirements as root; for graphs returned without a graph-level error: one version per package, root kept, every requirement with a true marker is an edge to a version satisfying the specifier under pip's prerelease rule (hand tables), false markers contribute no edge, no edge without a requirement, reachability. Non-trivial = >= 3 nodes."
	var universes, resolves, nontrivial int64
	st := &c08Stats{}
	per := map[string]any{}
	type family struct {
		sp   *univ.Space
		name string
		max  int
		keep func(kind, dep, target, option string) bool
	}
	var fams []family
	for _, sp := range univ.PyPISpaces() {
		d := dev
		if sp.Base != "empty" {
			d--
		}
		fams = append(fams, family{sp, sp.Base + "/all", d, nil})
		if sp.Base == "conflict" {
			fams = append(fams, family{sp, "conflict/markers+extras", dev + 1, func(kind, dep, target, option string) bool { return kind == "decor" }})
			fams = append(fams, family{sp, "conflict/specifiers-on-c", dev + 1, func(kind, dep, target, option string) bool {
				return kind == "req" && target == "c" && option != "<remove>"
			}})
		}
	}
	for _, fm := range fams {
		sp := fm.sp
		var batch []univ.Universe
		var u0, r0, nt0 int64
		flush := func() {
			core.ParFor(len(batch), func(i int) {
				u := batch[i]
				_, hot := c05Roots(u)
				for _, root := range hot {
					fails, outcome := c08Check(u, root, st)
					atomic.AddInt64(&r0, 1)
					if strings.HasPrefix(outcome, "nodes=") && outcome != "nodes=1" && outcome != "nodes=2" {
						atomic.AddInt64(&nt0, 1)
					}
					run.Outcome(outcome)
					for _, f := range fails {
						clause, _, _ := strings.Cut(f, ":")
						run.Fail(core.Join("pypi", clause, root[0]+"@"+root[1], u.Encode()), f)
					}
				}
			})
			batch = batch[:0]
		}
		stopped := false
		visit := func(picks []univ.Pick) {
			if stopped {
				return
			}
			u, ok := sp.Build(picks)
			if !ok || len(u.Vers[0].Reqs) == 0 {
				return
			}
			u0++
			batch = append(batch, u)
			if len(batch) >= 2048 {
				flush()
				if run.OutOfTime("C08 "+fm.name) || run.Violations() > 500 {
					stopped = true
				}
			}
		}
		if fm.keep == nil {
			univ.Enumerate(sp.Slots, fm.max, visit)
		} else {
			sp.EnumerateFocused(fm.max, fm.keep, visit)
		}
		flush()
		if stopped {
			run.Cap("pypi/" + fm.name + ": enumeration stopped early")
		}
		universes += u0
		resolves += r0
		nontrivial += nt0
		per[fm.name] = map[string]any{"universes": u0, "resolutions": r0, "deviation_bound": fm.max, "completed": !stopped}
	}
	run.Cov["states"] = universes
	run.Cov["transitions"] = resolves
	run.Cov["traces_validated_against_impl"] = resolves
	run.Cov["evaluations"] = resolves
	run.Cov["distinct_nontrivial"] = nontrivial
	run.Cov["per_family"] = per
	run.Cov["mechanisms_exercised"] = map[string]int64{"resolution_impossible_not_judged": st.impossible, "false_marker_requirements": st.markerFalse, "edges_requesting_extra": st.extrasUsed, "edges_to_prerelease": st.prerelease, "resolutions_with_3plus_nodes": st.multiNode}
	run.Sample(map[string]any{"universe": `{"sys":"PyPI","vers":[{"p":"r","v":"1.0","reqs":[{"p":"a","v":">=1.0"},{"p":"b","v":">=1.0"}]},{"p":"a","v":"2.0","reqs":[{"p":"c","v":"==1.0"}]}, ...]}`, "root": "r@1.0"})
	run.Assumptions = []string{"at most one requirement per (dependent version, package), as the property states", "specifier satisfaction, marker truth and the prerelease rule are hand tables in the harness; universes beyond the deviation bound are not covered"}
	run.Finish()
}

func c08Replay(w string) (bool, string) {
	p := core.Split(w)
	if p[0] != "pypi" {
		return true, "unknown"
	}
	u, err := univ.Decode(p[3])
	if err != nil {
		return true, "bad universe"
	}
	n, v, _ := strings.Cut(p[2], "@")
	fails, _ := c08Check(u, [2]string{n, v}, nil)
	var rel []string
	for _, f := range fails {
		if strings.HasPrefix(f, p[1]+":") {
			rel = append(rel, f)
		}
	}
	sort.Strings(rel)
	return len(rel) == 0, strings.Join(rel, "\n")
}

// PyPIResolveDump resolves and renders (development aid).
func PyPIResolveDump(u univ.Universe, root [2]string) string {
	g, err := pypires.NewResolver(u.Client(nil)).Resolve(ctxBG, u.VK(root[0], root[1]))
	return graphDump(g, err)
}
