package props

import (
	"fmt"
	"os"
	"os/exec"
	"path/filepath"
	"strings"
	"sync"

	"deps.dev/util/resolve"
	npmres "deps.dev/util/resolve/npm"
	"verif/harness/core"
	"verif/harness/univ"
)

// Supplementary free-running race pass (C05, C18). The controlled scheduler of E3 only interleaves at client calls
// and mutex operations, and its hand-offs are happens-before edges that blind the race detector; this pass runs the
// same bodies on free goroutines in a binary built with -race. It is a tripwire, not a deciding step: it samples
// schedules, and the evidence lists it under "supplementary".

const raceGoroutines = 8

// RacePass is the entry point of the -race binary: `verif-race <ID> --race <tier>`.
func RacePass(id, tier string) {
	quick := tier == "quick"
	var resolves, universes int
	switch id {
	case "C05":
		for _, sp := range univ.AllSpaces() {
			limit := 40
			if !quick {
				limit = 100
			}
			n := 0
			univ.Enumerate(sp.Slots, 1, func(picks []univ.Pick) {
				if n >= limit {
					return
				}
				u, ok := sp.Build(picks)
				if !ok {
					return
				}
				roots, _ := c05Roots(u)
				if len(roots) == 0 {
					return
				}
				n++
				universes++
				ref := map[[2]string]string{}
				for _, r := range roots {
					c := u.Client(nil)
					g, err := newResolver(u.Sys, c).Resolve(ctxBG, u.VK(r[0], r[1]))
					ref[r] = graphDump(g, err)
				}
				client := u.Client(nil)
				var shared resolve.Resolver
				if u.Sys != "PyPI" {
					shared = newResolver(u.Sys, client)
				}
				var wg sync.WaitGroup
				var mu sync.Mutex
				for t := 0; t < raceGoroutines; t++ {
					wg.Add(1)
					go func(t int) {
						defer wg.Done()
						res := shared
						if res == nil {
							res = newResolver(u.Sys, client)
						}
						for rep := 0; rep < 2; rep++ {
							for k := range roots {
								r := roots[(k+t)%len(roots)]
								g, err := res.Resolve(ctxBG, u.VK(r[0], r[1]))
								if d := graphDump(g, err); d != ref[r] {
									mu.Lock()
									fmt.Printf("MISMATCH\t%s\t%s@%s\tconcurrent: %s\tsequential: %s\n", u.Encode(), r[0], r[1], d, ref[r])
									mu.Unlock()
									os.Exit(3)
								}
								mu.Lock()
								resolves++
								mu.Unlock()
							}
						}
					}(t)
				}
				wg.Wait()
			})
		}
	case "C18":
		slots, build := c18Space()
		limit := 60
		if !quick {
			limit = 200
		}
		n := 0
		univ.Enumerate(slots, 1, func(picks []univ.Pick) {
			if n >= limit {
				return
			}
			s, ok := build(picks)
			if !ok {
				return
			}
			n++
			universes++
			rootP := resolve.VersionKey{PackageKey: resolve.PackageKey{System: resolve.NPM, Name: "p"}, VersionType: resolve.Concrete, Version: "1.0.0"}
			g0, err0 := npmres.NewResolver(resolve.NewAPIClient(&fakeInsights{s: s})).Resolve(ctxBG, rootP)
			ref := graphDump(g0, err0)
			api := resolve.NewAPIClient(&fakeInsights{s: s})
			var wg sync.WaitGroup
			var mu sync.Mutex
			for t := 0; t < raceGoroutines; t++ {
				wg.Add(1)
				go func(t int) {
					defer wg.Done()
					for rep := 0; rep < 2; rep++ {
						if t%2 == 1 {
							api.Requirements(ctxBG, rootP)
							api.Versions(ctxBG, rootP.PackageKey)
						}
						g, err := npmres.NewResolver(api).Resolve(ctxBG, rootP)
						if d := graphDump(g, err); d != ref {
							mu.Lock()
							fmt.Printf("MISMATCH\t%s\tp@1.0.0\tconcurrent: %s\tsequential: %s\n", s.encode(), d, ref)
							mu.Unlock()
							os.Exit(3)
						}
						mu.Lock()
						resolves++
						mu.Unlock()
					}
				}(t)
			}
			wg.Wait()
		})
	default:
		fmt.Println("no race pass for", id)
		os.Exit(2)
	}
	fmt.Printf("RACE-PASS\tok\t%d\t%d\n", universes, resolves)
}

// runRacePass runs the -race binary if setup built it and records the outcome.
func runRacePass(run *core.Run, id, tier string) {
	bin := filepath.Join(core.Root, ".cache", "bin", "verif-race")
	if _, err := os.Stat(bin); err != nil {
		run.Cov["supplementary"] = map[string]any{"free_running_race_pass": "binary not built"}
		return
	}
	cmd := exec.Command(bin, id, "--race", tier)
	cmd.Env = append(os.Environ(), "GORACE=halt_on_error=1 exitcode=66")
	out, err := cmd.CombinedOutput()
	text := string(out)
	info := map[string]any{"goroutines": raceGoroutines, "kind": "sampling tripwire (go build -race, free-running goroutines on one shared client/resolver); no verdict of the exhaustive part depends on it"}
	if err == nil {
		for _, line := range strings.Split(text, "\n") {
			f := strings.Split(line, "\t")
			if f[0] == "RACE-PASS" && len(f) >= 4 {
				info["universes"], info["resolves"], info["races"] = f[2], f[3], 0
			}
		}
		run.Cov["supplementary"] = map[string]any{"free_running_race_pass": info}
		return
	}
	code := -1
	if ee, ok := err.(*exec.ExitError); ok {
		code = ee.ExitCode()
	}
	switch code {
	case 66:
		i := strings.Index(text, "WARNING: DATA RACE")
		rep := text
		if i >= 0 {
			rep = text[i:]
		}
		if len(rep) > 3000 {
			rep = rep[:3000]
		}
		info["races"] = 1
		run.Cov["supplementary"] = map[string]any{"free_running_race_pass": info}
		run.Fail(core.Join("race", id, tier), "the race detector reports a data race while "+fmt.Sprint(raceGoroutines)+" goroutines resolve on one shared client:\n"+rep)
	case 3:
		first := strings.SplitN(text, "\n", 2)[0]
		run.Fail(core.Join("race", id, tier), "a concurrent resolution differs from the sequential one: "+first)
	default:
		core.Harness("%s race pass failed to run (exit %d): %s", id, code, firstLineOf(text))
	}
}

// raceReplay re-runs the pass (up to three times: it samples schedules) and returns a constant observation.
func raceReplay(id, tier string) (bool, string) {
	bin := filepath.Join(core.Root, ".cache", "bin", "verif-race")
	for try := 0; try < 3; try++ {
		cmd := exec.Command(bin, id, "--race", tier)
		cmd.Env = append(os.Environ(), "GORACE=halt_on_error=1 exitcode=66")
		if _, err := cmd.CombinedOutput(); err != nil {
			if ee, ok := err.(*exec.ExitError); ok && (ee.ExitCode() == 66 || ee.ExitCode() == 3) {
				return false, "free-running pass: data race reported or concurrent result differs from the sequential one"
			}
		}
	}
	return true, "race pass clean in three runs"
}
