package props

import (
	"context"
	"errors"
	"sync"
	"sync/atomic"
	"time"

	"deps.dev/util/resolve"
)

// The npm resolver does not terminate on some universes in which an alias spells a real package name (DESIGN 9.2);
// Resolve polls its context, so every resolution of the universe-based checks runs under a deadline (60 s) four to six
// orders of magnitude above the normal cost of a call. A resolution that reaches it is counted and reported in the evidence
// (it returns the same deadline error on every path, so it cannot produce a difference).
const resolveDeadline = 60 * time.Second

var (
	resolveCuts    int64
	resolveCutMu   sync.Mutex
	resolveCutKeys []string
)

type boundedResolver struct{ r resolve.Resolver }

func bounded(r resolve.Resolver) resolve.Resolver { return boundedResolver{r} }

func (b boundedResolver) Resolve(ctx context.Context, vk resolve.VersionKey) (*resolve.Graph, error) {
	c, cancel := context.WithTimeout(ctx, resolveDeadline)
	defer cancel()
	g, err := b.r.Resolve(c, vk)
	if err != nil && errors.Is(err, context.DeadlineExceeded) {
		atomic.AddInt64(&resolveCuts, 1)
		resolveCutMu.Lock()
		if len(resolveCutKeys) < 5 {
			resolveCutKeys = append(resolveCutKeys, vk.Name+"@"+vk.Version)
		}
		resolveCutMu.Unlock()
	}
	return g, err
}

// resolveCutReport is put into the evidence of the checks that use bounded resolvers.
func resolveCutReport() map[string]any {
	resolveCutMu.Lock()
	defer resolveCutMu.Unlock()
	return map[string]any{"resolutions_cut_at_deadline": atomic.LoadInt64(&resolveCuts), "deadline_s": resolveDeadline.Seconds(), "first_roots": append([]string{}, resolveCutKeys...)}
}
