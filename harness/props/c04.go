package props

import (
	"bufio"
	"bytes"
	"context"
	"encoding/binary"
	"encoding/xml"
	"fmt"
	"io"
	"os"
	"os/exec"
	"path/filepath"
	"runtime/debug"
	"sort"
	"strconv"
	"strings"
	"sync"
	"sync/atomic"
	"syscall"
	"time"

	"deps.dev/util/maven"
	"deps.dev/util/pypi"
	"deps.dev/util/resolve"
	"deps.dev/util/resolve/dep"
	mavenres "deps.dev/util/resolve/maven"
	npmres "deps.dev/util/resolve/npm"
	pypires "deps.dev/util/resolve/pypi"
	"deps.dev/util/resolve/schema"
	"deps.dev/util/semver"
	"verif/harness/core"
	"verif/harness/dom"
)

// ---------------- entry points ----------------

type c04Entry struct {
	name string
	f    func(s string)
}

type c04Group struct {
	name    string
	tokens  []string
	entries []c04Entry
	maxLen  [2]int // token-sequence length: quick, thorough
	bytes   bool   // also run over all short byte strings
}

var ctxBG = context.Background()

func semverEntries() []c04Entry {
	var es []c04Entry
	for _, sys := range dom.Systems {
		sys := sys
		n := sys.String()
		es = append(es,
			c04Entry{"semver." + n + ".Parse", func(s string) {
				v, err := sys.Parse(s)
				if err == nil && v != nil {
					_ = v.Canon(true)
					_ = v.Canon(false)
					_ = v.String()
					_ = v.Prerelease()
					_ = v.IsWildcard()
					_ = v.IsPrerelease()
					_ = v.IsBuild()
					v.Major()
					v.Epoch()
					_ = v.Compare(v)
					if w, err := sys.Parse("1.0.0"); err == nil {
						_ = v.Compare(w)
						_ = w.Compare(v)
						v.Difference(w)
					}
					_ = sys.MinVersion(v)
				}
			}},
			c04Entry{"semver." + n + ".Compare", func(s string) {
				_ = sys.Compare(s, "1.2.3")
				_ = sys.Compare("1.0.0-a", s)
				_ = sys.Compare(s, s)
				sys.Difference(s, "1.2.3")
				sys.Difference("v1.0.0", s)
			}},
			c04Entry{"semver." + n + ".ParseConstraint", func(s string) {
				c, err := sys.ParseConstraint(s)
				if err == nil && c != nil {
					_ = c.String()
					_ = c.IsSimple()
					_ = c.HasPrerelease()
					_ = c.Match("1.2.3")
					_ = c.Match(s)
					set := c.Set()
					str := set.String()
					_ = set.Empty()
					set.Match("1.2.3-alpha")
					if c2, err := sys.ParseSetConstraint(str); err == nil {
						_ = c2.Match("0.0.0")
					}
					if v, err := sys.Parse("2.0.0"); err == nil {
						_ = c.MatchVersion(v)
						_ = c.MatchVersionPrerelease(v)
					}
					u := c.Set()
					_ = u.Union(c.Set())
					_ = u.Intersect(c.Set())
				}
			}},
			c04Entry{"semver." + n + ".ParseSetConstraint", func(s string) {
				c, err := sys.ParseSetConstraint(s)
				if err == nil && c != nil {
					_ = c.Match("1.2.3")
					_ = c.Set().String()
					_ = c.HasPrerelease()
					if v, err := sys.Parse("1.0.0"); err == nil {
						_ = c.MatchVersionPrerelease(v)
					}
				}
			}},
		)
	}
	return es
}

func pypiEntries() []c04Entry {
	return []c04Entry{
		{"pypi.ParseDependency", func(s string) { pypi.ParseDependency(s) }},
		{"pypi.CanonPackageName", func(s string) { _ = pypi.CanonPackageName(pypi.CanonPackageName(s)) }},
		{"pypi.CanonVersion", func(s string) { _ = pypi.CanonVersion(s) }},
		{"pypi.ParseWheelName", func(s string) { pypi.ParseWheelName(s) }},
		{"pypi.SdistVersion", func(s string) {
			pypi.SdistVersion(s, s)
			pypi.SdistVersion("foo", s)
			pypi.SdistVersion(s, "foo-1.0.tar.gz")
			pypi.SdistVersion(pypi.CanonPackageName(s), s+"-1.0.tar.gz")
		}},
		{"pypi.ParseMetadata", func(s string) {
			pypi.ParseMetadata(ctxBG, s)
			pypi.ParseMetadata(ctxBG, "Metadata-Version: 2.1\nName: x\nVersion: 1\nRequires-Dist: "+s+"\n\nbody")
			pypi.ParseMetadata(ctxBG, "Name: "+s+"\nVersion: "+s+"\nProvides-Extra: "+s+"\n")
		}},
		{"pypi.SdistMetadata", func(s string) {
			pypi.SdistMetadata(ctxBG, "x-1.0.tar.gz", strings.NewReader(s))
			pypi.SdistMetadata(ctxBG, "x-1.0.zip", strings.NewReader(s))
			pypi.SdistMetadata(ctxBG, s, strings.NewReader(s))
		}},
		{"pypi.WheelMetadata", func(s string) { pypi.WheelMetadata(ctxBG, strings.NewReader(s), int64(len(s))) }},
	}
}

func schemaEntries() []c04Entry {
	var es []c04Entry
	for _, sys := range []resolve.System{resolve.NPM, resolve.Maven, resolve.PyPI} {
		sys := sys
		n := map[resolve.System]string{resolve.NPM: "NPM", resolve.Maven: "Maven", resolve.PyPI: "PyPI"}[sys]
		es = append(es,
			c04Entry{"schema.New." + n, func(s string) {
				sc, err := schema.New(s, sys)
				if err == nil && sc != nil {
					c := sc.NewClient()
					sc.ValidateClient(c)
					sc.Package("a")
				}
			}},
			c04Entry{"schema.ParseResolve." + n, func(s string) {
				g, err := schema.ParseResolve(s, sys)
				if err == nil && g != nil {
					_ = g.String()
					g.Canon()
				}
			}},
		)
	}
	es = append(es,
		c04Entry{"resolve.VerifDepParseString", func(s string) { resolve.VerifDepParseString(s) }},
		c04Entry{"resolve.VerifVersionParseString", func(s string) { resolve.VerifVersionParseString(s) }},
		c04Entry{"resolve.MavenDepType", func(s string) {
			t := resolve.MavenDepType(maven.Dependency{GroupID: maven.String(s), ArtifactID: "a", Scope: maven.String(s), Type: maven.String(s), Classifier: maven.String(s),
				Optional: maven.FalsyBool(s), Exclusions: []maven.Exclusion{{GroupID: maven.String(s), ArtifactID: maven.String(s)}}}, s)
			resolve.MavenDepTypeToDependency(t)
			var t2 dep.Type
			t2.AddAttr(dep.MavenExclusions, s)
			t2.AddAttr(dep.Scope, s)
			resolve.MavenDepTypeToDependency(t2)
		}},
	)
	return es
}

// one-dependency universes: root r@1 requires b with requirement s (and marker/extras for PyPI)
func resolverEntries() []c04Entry {
	mk := func(sys resolve.System, name, ver string) resolve.Version {
		return resolve.Version{VersionKey: resolve.VersionKey{PackageKey: resolve.PackageKey{System: sys, Name: name}, VersionType: resolve.Concrete, Version: ver}}
	}
	req := func(sys resolve.System, name, ver string, t dep.Type) resolve.RequirementVersion {
		return resolve.RequirementVersion{VersionKey: resolve.VersionKey{PackageKey: resolve.PackageKey{System: sys, Name: name}, VersionType: resolve.Requirement, Version: ver}, Type: t}
	}
	return []c04Entry{
		{"resolve.MatchRequirement", func(s string) {
			for _, sys := range []resolve.System{resolve.NPM, resolve.Maven, resolve.PyPI} {
				vs := []resolve.Version{mk(sys, "b", "1.0.0"), mk(sys, "b", s), mk(sys, "b", "2.0.0")}
				resolve.MatchRequirement(req(sys, "b", s, dep.NewType()).VersionKey, vs)
			}
		}},
		{"npm.Resolve(requirement)", func(s string) {
			lc := resolve.NewLocalClient()
			lc.AddVersion(mk(resolve.NPM, "b", "1.0.0"), nil)
			lc.AddVersion(mk(resolve.NPM, "b", "2.0.0"), []resolve.RequirementVersion{req(resolve.NPM, "r", s, dep.NewType())})
			kt := dep.NewType()
			kt.AddAttr(dep.KnownAs, s)
			lc.AddVersion(mk(resolve.NPM, "r", "1.0.0"), []resolve.RequirementVersion{req(resolve.NPM, "b", s, dep.NewType()), req(resolve.NPM, s, "*", dep.NewType()), req(resolve.NPM, "b", "npm:b@"+s, kt)})
			g, err := npmres.NewResolver(lc).Resolve(ctxBG, mk(resolve.NPM, "r", "1.0.0").VersionKey)
			if err == nil && g != nil {
				g.Canon()
				_ = g.String()
			}
		}},
		{"maven.Resolve(requirement)", func(s string) {
			lc := resolve.NewLocalClient()
			lc.AddVersion(mk(resolve.Maven, "g:b", "1.0"), nil)
			lc.AddVersion(mk(resolve.Maven, "g:b", "2.0"), []resolve.RequirementVersion{req(resolve.Maven, "g:r", s, dep.NewType())})
			et := dep.NewType()
			et.AddAttr(dep.MavenExclusions, s)
			et.AddAttr(dep.Scope, s)
			et.AddAttr(dep.MavenArtifactType, s)
			mt := dep.NewType()
			mt.AddAttr(dep.MavenDependencyOrigin, "management")
			lc.AddVersion(mk(resolve.Maven, "g:r", "1.0"), []resolve.RequirementVersion{req(resolve.Maven, "g:b", s, dep.NewType()), req(resolve.Maven, "g:b", "[1.0,)", et), req(resolve.Maven, s, "1.0", dep.NewType()), req(resolve.Maven, "g:b", s, mt)})
			g, err := mavenres.NewResolver(lc).Resolve(ctxBG, mk(resolve.Maven, "g:r", "1.0").VersionKey)
			if err == nil && g != nil {
				g.Canon()
				_ = g.String()
			}
		}},
		{"pypi.Resolve(requirement,marker)", func(s string) {
			for again := 0; again < 2; again++ { // the second resolution meets the resolver's caches filled by the first
				c04PyPIResolve(s)
			}
		}},
	}
}

func c04PyPIResolve(s string) {
	mk := func(sys resolve.System, name, ver string) resolve.Version {
		return resolve.Version{VersionKey: resolve.VersionKey{PackageKey: resolve.PackageKey{System: sys, Name: name}, VersionType: resolve.Concrete, Version: ver}}
	}
	req := func(sys resolve.System, name, ver string, t dep.Type) resolve.RequirementVersion {
		return resolve.RequirementVersion{VersionKey: resolve.VersionKey{PackageKey: resolve.PackageKey{System: sys, Name: name}, VersionType: resolve.Requirement, Version: ver}, Type: t}
	}
	{
		{
			// A fresh PyPI resolver allocates three 10 000-entry caches (2.5 ms). One resolver per worker
			// process is reused over a swappable client; package names carry a per-input counter so that no
			// cache entry (keyed by package/requirement) can be shared between two inputs.
			pyOnce.Do(func() {
				pyClient = &swapClient{}
				pyRes = pypires.NewResolver(pyClient)
			})
			pyN++
			sfx := strconv.Itoa(pyN)
			b, c, r := "b"+sfx, "c"+sfx, "r"+sfx
			lc := resolve.NewLocalClient()
			lc.AddVersion(mk(resolve.PyPI, b, "1.0"), nil)
			lc.AddVersion(mk(resolve.PyPI, b, "2.0"), []resolve.RequirementVersion{req(resolve.PyPI, r, s, dep.NewType())})
			lc.AddVersion(mk(resolve.PyPI, c, "1.0"), nil)
			et := dep.NewType()
			et.AddAttr(dep.Environment, s)
			xt := dep.NewType()
			xt.AddAttr(dep.EnabledDependencies, s)
			lc.AddVersion(mk(resolve.PyPI, r, "1.0"), []resolve.RequirementVersion{req(resolve.PyPI, b, s, dep.NewType()), req(resolve.PyPI, c, "", et), req(resolve.PyPI, c, ">=1.0", xt), req(resolve.PyPI, s, "", dep.NewType())})
			pyClient.c = lc
			g, err := pyRes.Resolve(ctxBG, mk(resolve.PyPI, r, "1.0").VersionKey)
			if err == nil && g != nil {
				g.Canon()
				_ = g.String()
			}
		}
	}
}

var (
	pyRes    resolve.Resolver
	pyClient *swapClient
	pyOnce   sync.Once
	pyN      int
)

type swapClient struct{ c resolve.Client }

func (s *swapClient) Version(ctx context.Context, vk resolve.VersionKey) (resolve.Version, error) {
	return s.c.Version(ctx, vk)
}
func (s *swapClient) Versions(ctx context.Context, pk resolve.PackageKey) ([]resolve.Version, error) {
	return s.c.Versions(ctx, pk)
}
func (s *swapClient) Requirements(ctx context.Context, vk resolve.VersionKey) ([]resolve.RequirementVersion, error) {
	return s.c.Requirements(ctx, vk)
}
func (s *swapClient) MatchingVersions(ctx context.Context, vk resolve.VersionKey) ([]resolve.Version, error) {
	return s.c.MatchingVersions(ctx, vk)
}

func mavenPipeline(p *maven.Project, parents map[string]string) {
	p.MergeProfiles("11.0.8", maven.ActivationOS{Name: "linux", Family: "unix", Arch: "amd64", Version: "5.10"})
	// parents: follow up to MaxMavenParent links in the table
	cur := *p
	for i := 0; i < resolve.MaxMavenParent; i++ {
		key := string(cur.Parent.GroupID) + ":" + string(cur.Parent.ArtifactID) + ":" + string(cur.Parent.Version)
		src, ok := parents[key]
		if !ok {
			break
		}
		var par maven.Project
		if xml.Unmarshal([]byte(src), &par) != nil {
			break
		}
		par.MergeProfiles("11.0.8", maven.ActivationOS{})
		p.MergeParent(par)
		cur = par
	}
	p.Interpolate()
	p.ProcessDependencies(func(g, a, v maven.String) (maven.DependencyManagement, error) {
		src, ok := parents[string(g)+":"+string(a)+":"+string(v)]
		if !ok {
			return maven.DependencyManagement{}, fmt.Errorf("not found")
		}
		var bom maven.Project
		if err := xml.Unmarshal([]byte(src), &bom); err != nil {
			return maven.DependencyManagement{}, err
		}
		bom.Interpolate()
		return bom.DependencyManagement, nil
	})
	for _, d := range p.Dependencies {
		d.Key()
		_ = d.Name()
		_ = d.ExclusionsString()
		resolve.MavenDepType(d, "")
	}
}

func mavenEntries() []c04Entry {
	return []c04Entry{
		{"maven.Project(xml)", func(s string) {
			var p maven.Project
			if err := xml.Unmarshal([]byte(s), &p); err == nil {
				mavenPipeline(&p, nil)
			}
			var md maven.Metadata
			xml.Unmarshal([]byte(s), &md)
		}},
		{"maven.Project(fields)", func(s string) {
			// Interpolation of a table whose values repeat a placeholder n times costs O(n*len): polynomial, not
			// non-termination. Inputs beyond 20 kB are left to the XML entry so that the watchdog never fires on
			// merely slow (quadratic) work.
			if len(s) > 20000 {
				return
			}
			// the text lands in every interpolated position of a syntactically valid POM
			p := maven.Project{ProjectKey: maven.ProjectKey{GroupID: maven.String(s), ArtifactID: "a", Version: maven.String(s)},
				Parent:     maven.Parent{ProjectKey: maven.ProjectKey{GroupID: maven.String(s), ArtifactID: "p", Version: maven.String(s)}},
				Properties: maven.Properties{Properties: []maven.Property{{Name: "a", Value: s}, {Name: s, Value: "${a}"}, {Name: "b", Value: "${" + s + "}"}, {Name: "c", Value: s + "${c}" + s}}},
				Dependencies: []maven.Dependency{{GroupID: "g", ArtifactID: maven.String(s), Version: maven.String(s), Scope: maven.String(s), Type: maven.String(s), Classifier: maven.String(s), Optional: maven.FalsyBool(s)},
					{GroupID: "${a}", ArtifactID: "${b}", Version: "${c}"}},
				DependencyManagement: maven.DependencyManagement{Dependencies: []maven.Dependency{{GroupID: "g", ArtifactID: maven.String(s), Version: "${a}", Scope: "import", Type: "pom"}}},
				Profiles: []maven.Profile{{Activation: maven.Activation{JDK: maven.String(s), OS: maven.ActivationOS{Name: maven.String(s), Family: maven.String(s), Arch: maven.String(s), Version: maven.String(s)},
					Property: maven.ActivationProperty{Name: maven.String(s), Value: maven.String(s)}, ActiveByDefault: maven.FalsyBool(s)}}},
			}
			mavenPipeline(&p, nil)
			ms := maven.String(s)
			_ = ms.ContainsProperty()
			maven.MakeProjectKey(s, s)
		}},
	}
}

func c04Groups() []*c04Group {
	verTok := []string{"1", "0", "01", "10", "99999999999999999999", "9223372036854775807", ".", "-", "+", "v", "a", "rc", "*", "x", "!", "_", "∞", "é", "\xff", " ", "dev", "post", "SNAPSHOT"}
	conTok := []string{"1", "1.2", "1.2.3-a", "1.2.3.4", "1..2", " - ", "*", "x", ">=", "<", "=", "==", "!=", "^", "~", "~>", "~=", "||", ",", " ", "-", "[", "]", "(", ")", "{", "}", ":", "∞", "<empty>", "é", "\xff", "v"}
	pyTok := []string{"foo", "A.b_c", "[", "]", "x", ",", "(", ")", ">=1.0", "==", "1.0", ";", "extra", "'x'", "\"", " ", "\t", "@", "python_version", "<", "and", "or", "é", "\xff", "-", ".whl", ".tar.gz", "-1.0", "py3-none-any", "\n", ":"}
	markTok := []string{"python_version", "extra", "os_name", "==", "!=", "<", ">=", "~=", "===", "in", "not in", "not", "and", "or", "(", ")", "'3.8'", "\"x\"", "'", " ", "é", "\xff", "1", ",", ";"}
	pomTok := []string{"<project>", "</project>", "<properties>", "</properties>", "<a>", "</a>", "<dependencies><dependency>", "</dependency></dependencies>", "<version>", "</version>", "<groupId>g</groupId><artifactId>x</artifactId>", "x", "${a}", "${", "}", "<!--", "-->", "]]>", "<![CDATA[", "&amp;", "&", "<", ">", "é", "\xff", "<optional>", "true", "<parent>", "</parent>", "<profiles><profile><activation><jdk>", "</jdk></activation></profile></profiles>", "[1.8,)", "!"}
	propTok := []string{"${", "}", "a", "b", "${a}", "${b}", "${c}", "${project.version}", "$", "{", "é", "\xff", "${}", " "}
	schTok := []string{"a", "1.0.0", "\n", "\t", " ", "@", "|", ":", "$", "#", "ATTR:", "ERROR:", "->", "l:", "$l", "dev", "scope", "\"", "é", "\xff", "a@1", "1: ", "*", "redirect", "opt", "l: a 1\n", "\t$l@1\n", "\t\t$l@1\n", "\t\t\t$l@1\n", "\tb@1 ERROR: e\n", "a\n\t1.0.0\n", "\t\tb@1\n", "\tlatest -> 1.0.0\n"}
	all := append(append(append(semverEntries(), pypiEntries()...), schemaEntries()...), append(resolverEntries(), mavenEntries()...)...)
	pick := func(prefixes ...string) []c04Entry {
		var out []c04Entry
		for _, e := range all {
			for _, p := range prefixes {
				if strings.HasPrefix(e.name, p) {
					out = append(out, e)
					break
				}
			}
		}
		return out
	}
	return []*c04Group{
		{name: "bytes", entries: all, bytes: true},
		{name: "versions", tokens: verTok, entries: pick("semver.", "pypi.CanonVersion", "resolve.MatchRequirement"), maxLen: [2]int{4, 5}},
		{name: "constraints", tokens: conTok, entries: pick("semver.", "resolve.MatchRequirement", "npm.Resolve", "maven.Resolve", "pypi.Resolve"), maxLen: [2]int{3, 4}},
		{name: "pypi", tokens: pyTok, entries: pick("pypi.", "pypi.Resolve"), maxLen: [2]int{3, 4}},
		{name: "markers", tokens: markTok, entries: pick("pypi.Resolve", "pypi.ParseDependency", "resolve.VerifDepParseString"), maxLen: [2]int{4, 5}},
		{name: "pom", tokens: pomTok, entries: pick("maven.Project(xml)"), maxLen: [2]int{3, 4}},
		{name: "properties", tokens: propTok, entries: pick("maven.Project(fields)", "resolve.MavenDepType"), maxLen: [2]int{4, 5}},
		{name: "schema", tokens: schTok, entries: pick("schema.", "resolve.Verif"), maxLen: [2]int{4, 5}},
	}
}

// ---------------- domains by index ----------------

// seqCount returns the number of sequences of length <= maxLen over k symbols.
func seqCount(k, maxLen int) int64 {
	var n, p int64 = 0, 1
	for l := 0; l <= maxLen; l++ {
		n += p
		p *= int64(k)
	}
	return n
}

// seqAt returns the i-th sequence (shortest first) as symbol indices.
func seqAt(k, maxLen int, i int64) []int {
	var p int64 = 1
	for l := 0; l <= maxLen; l++ {
		if i < p {
			out := make([]int, l)
			for x := l - 1; x >= 0; x-- {
				out[x] = int(i % int64(k))
				i /= int64(k)
			}
			return out
		}
		i -= p
		p *= int64(k)
	}
	return nil
}

func (g *c04Group) size(tier int, byteLen int) int64 {
	if g.bytes {
		return seqCount(256, byteLen)
	}
	return seqCount(len(g.tokens), g.maxLen[tier])
}

func (g *c04Group) at(tier int, byteLen int, i int64) string {
	if g.bytes {
		idx := seqAt(256, byteLen, i)
		b := make([]byte, len(idx))
		for k, x := range idx {
			b[k] = byte(x)
		}
		return string(b)
	}
	var sb strings.Builder
	for _, x := range seqAt(len(g.tokens), g.maxLen[tier], i) {
		sb.WriteString(g.tokens[x])
	}
	return sb.String()
}

// stress inputs: deterministic long/deep families
func c04Stress(thorough bool) []string {
	var out []string
	// flat repetition: up to 10^4 tokens (algorithms that are quadratic in the input length still finish
	// well inside the watchdog at this size; a merely slow call must never look like a hang)
	toks := []string{"1", ".", "1.", "-", "a", "(", ")", "((", "[", "${", "${a", "}", "<a>", "||", " ", ",", ">=1 ", "1 || ", "not ", "(a", "'", "\"", "\n\t", "\t", "é", "\xff", "9", "x.", "python_version<'3' and ", "<project><parent>", "a|"}
	for _, n := range []int{10, 100, 1000, 10000} {
		for _, t := range toks {
			out = append(out, strings.Repeat(t, n))
		}
		out = append(out, "<project><properties>"+strings.Repeat("<a>${a}</a>", n)+"</properties></project>")
		out = append(out, "1."+strings.Repeat("0.", n)+"1", strings.Repeat("1!", n)+"1", "1-"+strings.Repeat("a-", n), "1"+strings.Repeat("+a", n), ">="+strings.Repeat("1", n))
		out = append(out, "a\n"+strings.Repeat("\t", n)+"b", strings.Repeat("a 1\n\tb@1 1\n", n))
	}
	// nesting (recursion depth): up to 10^4, and 10^5 in the thorough tier
	ns := []int{10, 100, 1000, 10000}
	if thorough {
		ns = append(ns, 100000)
	}
	for _, n := range ns {
		out = append(out, strings.Repeat("(", n)+"os_name=='x'"+strings.Repeat(")", n))
		out = append(out, strings.Repeat("${a", n)+strings.Repeat("}", n))
		out = append(out, strings.Repeat("<a>", n)+strings.Repeat("</a>", n))
		out = append(out, strings.Repeat("(", n), strings.Repeat("((", n)+"x")
	}
	return out
}

// ---------------- worker ----------------

const c04CursorSize = 24

func c04Quote(s string) string { return strconv.Quote(s) }

// C04Worker runs a slice of a domain in this process. argv: group tier byteLen start end cursorFile
func C04Worker(argv []string) {
	debug.SetMaxStack(256 << 20)
	gname := argv[0]
	tier, _ := strconv.Atoi(argv[1])
	byteLen, _ := strconv.Atoi(argv[2])
	start, _ := strconv.ParseInt(argv[3], 10, 64)
	end, _ := strconv.ParseInt(argv[4], 10, 64)
	var g *c04Group
	for _, x := range c04Groups() {
		if x.name == gname || (gname == "stress" && x.name == "bytes") {
			g = x
		}
	}
	if g == nil {
		fmt.Println("E\tunknown group")
		os.Exit(2)
	}
	f, err := os.OpenFile(argv[5], os.O_RDWR|os.O_CREATE, 0o644)
	if err != nil {
		fmt.Println("E\t" + err.Error())
		os.Exit(2)
	}
	f.Truncate(c04CursorSize)
	cur, err := syscall.Mmap(int(f.Fd()), 0, c04CursorSize, syscall.PROT_READ|syscall.PROT_WRITE, syscall.MAP_SHARED)
	if err != nil {
		fmt.Println("E\t" + err.Error())
		os.Exit(2)
	}
	out := bufio.NewWriter(os.Stdout)
	var beat atomic.Int64
	var curIdx, curEntry atomic.Int64
	go func() {
		last, lastT := int64(-1), time.Now()
		for {
			time.Sleep(500 * time.Millisecond)
			b := beat.Load()
			if b != last {
				last, lastT = b, time.Now()
				continue
			}
			if time.Since(lastT) > 20*time.Second {
				fmt.Fprintf(os.Stderr, "WATCHDOG hang at index %d entry %d\n", curIdx.Load(), curEntry.Load())
				os.Exit(7)
			}
		}
	}()
	var stressList []string
	if gname == "stress" {
		stressList = c04Stress(tier == 1)
	}
	for i := start; i < end; i++ {
		var in string
		if stressList != nil {
			in = stressList[i]
		} else {
			in = g.at(tier, byteLen, i)
		}
		for ei, e := range g.entries {
			binary.LittleEndian.PutUint64(cur[0:], uint64(i))
			binary.LittleEndian.PutUint64(cur[8:], uint64(ei))
			binary.LittleEndian.PutUint64(cur[16:], 1)
			curIdx.Store(i)
			curEntry.Store(int64(ei))
			beat.Add(1)
			func() {
				defer func() {
					if r := recover(); r != nil {
						fmt.Fprintf(out, "P\t%s\t%s\t%s\n", e.name, c04Quote(in), c04Quote(fmt.Sprint(r)))
					}
				}()
				e.f(in)
			}()
		}
	}
	binary.LittleEndian.PutUint64(cur[16:], 2)
	fmt.Fprintf(out, "D\n")
	out.Flush()
}

// C04One runs one entry on one input in this process (used for pinpointing and replay).
func C04One(argv []string) {
	debug.SetMaxStack(256 << 20)
	name := argv[0]
	raw, _ := io.ReadAll(os.Stdin)
	in, err := strconv.Unquote(strings.TrimSpace(string(raw)))
	if err != nil {
		os.Exit(2)
	}
	for _, g := range c04Groups() {
		for _, e := range g.entries {
			if e.name == name {
				func() {
					defer func() {
						if r := recover(); r != nil {
							fmt.Printf("PANIC %v\n", r)
							os.Exit(10)
						}
					}()
					e.f(in)
					e.f(in) // again: entries that keep a long-lived object (the shared PyPI resolver) see their caches warm
				}()
				fmt.Println("OK")
				os.Exit(0)
			}
		}
	}
	os.Exit(2)
}

// c04RunOne spawns a child for one (entry, input); returns "ok" or a failure description.
func c04RunOne(entry, input string) string {
	self, _ := os.Executable()
	ctx, cancel := context.WithTimeout(context.Background(), 30*time.Second)
	defer cancel()
	cmd := exec.CommandContext(ctx, "/bin/sh", "-c", "ulimit -v 8000000; exec \"$0\" \"$@\"", self, "C04", "--one", entry)
	cmd.Stdin = strings.NewReader(c04Quote(input))
	var stdout, stderr bytes.Buffer
	cmd.Stdout, cmd.Stderr = &stdout, &stderr
	err := cmd.Run()
	if ctx.Err() != nil {
		return "hang: no return within 30s"
	}
	if err == nil {
		return "ok"
	}
	if strings.HasPrefix(stdout.String(), "PANIC") {
		return "panic: " + strings.TrimSpace(strings.TrimPrefix(firstLineOf(stdout.String()), "PANIC"))
	}
	se := stderr.String()
	for _, l := range strings.Split(se, "\n") {
		if strings.HasPrefix(l, "fatal error:") || strings.HasPrefix(l, "runtime: goroutine stack exceeds") || strings.HasPrefix(l, "panic:") {
			return "fatal: " + l
		}
	}
	return "fatal: child died: " + err.Error() + " " + firstLineOf(se)
}

func firstLineOf(s string) string {
	if i := strings.IndexByte(s, '\n'); i >= 0 {
		return s[:i]
	}
	return s
}

type c04Chunk struct {
	group      string
	start, end int64
}

// C04 decides the totality property.
func C04(tier string) {
	run := core.NewRun("C04", tier, c04Replay)
	t := 0
	byteLen := 2
	if tier == "thorough" {
		t = 1
		byteLen = 3
		run.SetBudget(3000e9)
	} else {
		run.SetBudget(240e9)
	}
	run.Cov["rule"] = "every entry point (semver x 9 systems: Parse/Compare/Difference/ParseConstraint/ParseSetConstraint/Match/Set ops; pypi: ParseDependency, CanonPackageName, CanonVersion, ParseWheelName, SdistVersion, ParseMetadata, SdistMetadata, WheelMetadata; maven: POM decode + MergeProfiles/MergeParent/Interpolate/ProcessDependencies; schema.New/ParseResolve (+Graph.String, Canon); deptest/versiontest parsers; MatchRequirement; npm/Maven/PyPI Resolve over a universe carrying the text as requirement, marker, exclusion, alias) is called on (a) all byte strings up to the byte bound, (b) all token sequences up to the token bound over a per-group token alphabet, (c) deterministic stress families (10^n repetitions, deep nesting); oracle: the call returns. Workers are subprocesses with a 256 MB stack cap, 8 GB address-space cap and a 20 s per-call watchdog; a dead worker's cursor pinpoints the input. Non-trivial = input accepted (no error) by at least... not measured; distinct_nontrivial counts distinct inputs."
	groups := c04Groups()
	groups = append(groups, &c04Group{name: "stress", entries: groups[0].entries})
	stressN := int64(len(c04Stress(t == 1)))
	var chunks []c04Chunk
	perGroup := map[string]any{}
	var totalInputs, totalCalls int64
	for _, g := range groups {
		n := stressN
		if g.name != "stress" {
			n = g.size(t, byteLen)
		}
		cs := n/48 + 1
		if cs > 400000 {
			cs = 400000
		}
		if g.name == "stress" {
			cs = 16
		}
		for s := int64(0); s < n; s += cs {
			e := s + cs
			if e > n {
				e = n
			}
			chunks = append(chunks, c04Chunk{g.name, s, e})
		}
		perGroup[g.name] = map[string]any{"inputs": n, "entry_points": len(g.entries), "calls": n * int64(len(g.entries)), "tokens": len(g.tokens)}
		totalInputs += n
		totalCalls += n * int64(len(g.entries))
	}
	self, _ := os.Executable()
	curDir := filepath.Join(core.Root, ".cache", "c04")
	os.MkdirAll(curDir, 0o755)
	var done, deaths int64
	var mu sync.Mutex
	groupByName := map[string]*c04Group{}
	for _, g := range groups {
		groupByName[g.name] = g
	}
	inputOf := func(gn string, i int64) string {
		if gn == "stress" {
			return c04Stress(t == 1)[i]
		}
		return groupByName[gn].at(t, byteLen, i)
	}
	var next int64
	var wg sync.WaitGroup
	for w := 0; w < core.Workers; w++ {
		wg.Add(1)
		go func(w int) {
			defer wg.Done()
			cursor := filepath.Join(curDir, fmt.Sprintf("cursor-%d-%d", os.Getpid(), w))
			defer os.Remove(cursor)
			for {
				ci := atomic.AddInt64(&next, 1) - 1
				if ci >= int64(len(chunks)) {
					return
				}
				if run.OutOfTime("C04 worker pool") {
					return
				}
				ch := chunks[ci]
				start := ch.start
				for start < ch.end {
					cmd := exec.Command("/bin/sh", "-c", "ulimit -v 8000000; exec \"$0\" \"$@\"", self, "C04", "--worker", ch.group, strconv.Itoa(t), strconv.Itoa(byteLen), strconv.FormatInt(start, 10), strconv.FormatInt(ch.end, 10), cursor)
					var stdout, stderr bytes.Buffer
					cmd.Stdout, cmd.Stderr = &stdout, &stderr
					err := cmd.Run()
					complete := false
					for _, line := range strings.Split(stdout.String(), "\n") {
						f := strings.Split(line, "\t")
						switch f[0] {
						case "P":
							in, _ := strconv.Unquote(f[2])
							msg, _ := strconv.Unquote(f[3])
							run.Fail(core.Join("call", f[1], c04Quote(in)), "panic: "+msg)
						case "D":
							complete = true
						case "E":
							core.Harness("C04 worker: %s", line)
						}
					}
					if complete && err == nil {
						break
					}
					// the worker died: read the cursor, pinpoint, continue after the culprit
					atomic.AddInt64(&deaths, 1)
					b, rerr := os.ReadFile(cursor)
					if rerr != nil || len(b) < c04CursorSize || binary.LittleEndian.Uint64(b[16:]) == 0 {
						core.Harness("C04: worker for %s[%d,%d) died before writing its cursor: %v %s", ch.group, start, ch.end, err, firstLineOf(stderr.String()))
					}
					idx := int64(binary.LittleEndian.Uint64(b[0:]))
					ei := int(binary.LittleEndian.Uint64(b[8:]))
					g := groupByName[ch.group]
					in := inputOf(ch.group, idx)
					status := c04RunOne(g.entries[ei].name, in)
					mu.Lock()
					if status == "ok" {
						// not reproducible in isolation: a harness problem (e.g. memory pressure), never a finding
						mu.Unlock()
						core.Harness("C04: worker died at %s %s but the call returns in isolation; stderr: %s", g.entries[ei].name, c04Quote(truncate(in, 80)), truncate(stderr.String(), 300))
					}
					run.Fail(core.Join("call", g.entries[ei].name, c04Quote(in)), status)
					mu.Unlock()
					// remaining entries of that input are skipped for this worker; resume at the next input
					start = idx + 1
				}
				atomic.AddInt64(&done, ch.end-ch.start)
			}
		}(w)
	}
	wg.Wait()
	run.Cov["states"] = atomic.LoadInt64(&done)
	run.Cov["transitions"] = totalCalls
	run.Cov["traces_validated_against_impl"] = totalCalls
	run.Cov["evaluations"] = totalCalls
	run.Cov["distinct_nontrivial"] = atomic.LoadInt64(&done)
	run.Cov["per_group"] = perGroup
	run.Cov["inputs_planned"] = totalInputs
	run.Cov["worker_deaths_pinpointed"] = atomic.LoadInt64(&deaths)
	run.Cov["byte_string_bound"] = byteLen
	if atomic.LoadInt64(&done) < totalInputs {
		run.Cap(fmt.Sprintf("only %d of %d inputs were run within the time budget", done, totalInputs))
	}
	run.Outcome("returned")
	if run.Failed() {
		run.Outcome("failed")
	}
	run.Sample(map[string]any{"group": "constraints", "input": groupByName["constraints"].at(t, byteLen, 12345)})
	run.Sample(map[string]any{"group": "schema", "input": groupByName["schema"].at(t, byteLen, 54321)})
	run.Assumptions = []string{"inputs longer than the bounds that are not in a stress family are not covered", "WheelMetadata/SdistMetadata only see short byte strings (archive parsing is the standard library's)"}
	run.Finish()
}

func truncate(s string, n int) string {
	if len(s) > n {
		return s[:n] + "…"
	}
	return s
}

func c04Replay(w string) (bool, string) {
	p := core.Split(w)
	if p[0] != "call" {
		return true, "unknown"
	}
	in, err := strconv.Unquote(p[2])
	if err != nil {
		return true, "bad witness"
	}
	st := c04RunOne(p[1], in)
	// observation: the class of failure only (messages may carry addresses)
	cls := st
	if i := strings.IndexByte(st, ':'); i > 0 {
		cls = st[:i]
	}
	return st == "ok", cls + " in " + p[1] + "(" + truncate(p[2], 200) + ")"
}

var _ = sort.Strings
var _ = semver.NPM

// C04Profile times each entry of a group on the first n inputs (development aid).
func C04Profile(group string, n int) map[string]time.Duration {
	out := map[string]time.Duration{}
	for _, g := range c04Groups() {
		if g.name != group {
			continue
		}
		for _, e := range g.entries {
			t0 := time.Now()
			for i := 0; i < n; i++ {
				in := g.at(0, 2, int64(i*31))
				func() {
					defer func() { recover() }()
					e.f(in)
				}()
			}
			out[e.name] = time.Since(t0)
		}
	}
	return out
}
