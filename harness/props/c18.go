package props

import (
	"context"
	"encoding/json"
	"errors"
	"fmt"
	"os"
	"os/exec"
	"sort"
	"strconv"
	"strings"
	"sync"
	"sync/atomic"
	"time"

	pb "deps.dev/api/v3"
	"deps.dev/util/resolve"
	"deps.dev/util/resolve/dep"
	npmres "deps.dev/util/resolve/npm"
	"deps.dev/util/resolve/version"
	"google.golang.org/grpc"
	"google.golang.org/grpc/codes"
	"google.golang.org/grpc/status"
	"verif/harness/core"
	"verif/harness/sched"
	"verif/harness/univ"
)

// ---- plain description of what the fake Insights service holds ----

type svcDep struct {
	Section string `json:"s"` // dep, dev, opt, peer, bundleDep
	Name    string `json:"n"`
	Req     string `json:"r,omitempty"`
}

type svcBundle struct {
	Path    []string `json:"path"` // package directory names below the bundler, e.g. ["b","c"]
	Name    string   `json:"name"` // name declared in the bundled package.json
	Version string   `json:"v"`
	Deps    []svcDep `json:"deps,omitempty"`
}

type svcVersion struct {
	Name    string      `json:"n"`
	Version string      `json:"v"`
	Default bool        `json:"default,omitempty"`
	Deps    []svcDep    `json:"deps,omitempty"`
	Bundled []svcBundle `json:"bundled,omitempty"`
}

type svcContents struct {
	Vers []svcVersion `json:"vers"`
}

func (s svcContents) encode() string { b, _ := json.Marshal(s); return string(b) }

func (s svcContents) find(name, ver string) (svcVersion, bool) {
	for _, v := range s.Vers {
		if v.Name == name && v.Version == ver {
			return v, true
		}
	}
	return svcVersion{}, false
}

func pbDeps(ds []svcDep) *pb.Requirements_NPM_Dependencies {
	out := &pb.Requirements_NPM_Dependencies{}
	for _, d := range ds {
		e := &pb.Requirements_NPM_Dependencies_Dependency{Name: d.Name, Requirement: d.Req}
		switch d.Section {
		case "dep":
			out.Dependencies = append(out.Dependencies, e)
		case "dev":
			out.DevDependencies = append(out.DevDependencies, e)
		case "opt":
			out.OptionalDependencies = append(out.OptionalDependencies, e)
		case "peer":
			out.PeerDependencies = append(out.PeerDependencies, e)
		case "bundleDep":
			out.BundleDependencies = append(out.BundleDependencies, d.Name)
		}
	}
	return out
}

// fakeInsights is the in-process service. Every RPC is a scheduling point on entry and on return and
// builds a fresh response (as a real transport would).
type fakeInsights struct {
	pb.InsightsClient // unimplemented methods panic if called
	s                 svcContents
	calls             atomic.Int64
}

func (f *fakeInsights) GetPackage(ctx context.Context, in *pb.GetPackageRequest, _ ...grpc.CallOption) (*pb.Package, error) {
	sched.Yield("rpc GetPackage")
	defer sched.Yield("rpc GetPackage return")
	f.calls.Add(1)
	name := in.GetPackageKey().GetName()
	out := &pb.Package{PackageKey: &pb.PackageKey{System: pb.System_NPM, Name: name}}
	for _, v := range f.s.Vers {
		if v.Name == name {
			out.Versions = append(out.Versions, &pb.Package_Version{VersionKey: &pb.VersionKey{System: pb.System_NPM, Name: name, Version: v.Version}, IsDefault: v.Default})
		}
	}
	if len(out.Versions) == 0 {
		return nil, status.Error(codes.NotFound, "package not found")
	}
	return out, nil
}

func (f *fakeInsights) GetVersion(ctx context.Context, in *pb.GetVersionRequest, _ ...grpc.CallOption) (*pb.Version, error) {
	sched.Yield("rpc GetVersion")
	defer sched.Yield("rpc GetVersion return")
	f.calls.Add(1)
	k := in.GetVersionKey()
	v, ok := f.s.find(k.GetName(), k.GetVersion())
	if !ok {
		return nil, status.Error(codes.NotFound, "version not found")
	}
	return &pb.Version{VersionKey: &pb.VersionKey{System: pb.System_NPM, Name: v.Name, Version: v.Version}, IsDefault: v.Default}, nil
}

func (f *fakeInsights) GetRequirements(ctx context.Context, in *pb.GetRequirementsRequest, _ ...grpc.CallOption) (*pb.Requirements, error) {
	sched.Yield("rpc GetRequirements")
	defer sched.Yield("rpc GetRequirements return")
	f.calls.Add(1)
	k := in.GetVersionKey()
	v, ok := f.s.find(k.GetName(), k.GetVersion())
	if !ok {
		return nil, status.Error(codes.NotFound, "version not found")
	}
	npm := &pb.Requirements_NPM{Dependencies: pbDeps(v.Deps)}
	// bundles are reported deepest first, to exercise the client's own ordering by path length
	bs := append([]svcBundle(nil), v.Bundled...)
	sort.SliceStable(bs, func(i, j int) bool { return len(bs[i].Path) > len(bs[j].Path) })
	for _, b := range bs {
		npm.Bundled = append(npm.Bundled, &pb.Requirements_NPM_Bundle{Path: "node_modules/" + strings.Join(b.Path, "/node_modules/"), Name: b.Name, Version: b.Version, Dependencies: pbDeps(b.Deps)})
	}
	return &pb.Requirements{Npm: npm}, nil
}

// ---- the reference mapping (a boring model written from the documentation of the API client) ----

func c18Flatten(ds []svcDep) []univ.Req {
	var out []univ.Req
	for _, sec := range []string{"dep", "dev", "opt", "peer"} {
		for _, d := range ds {
			if d.Section != sec {
				continue
			}
			r := univ.Req{Pkg: d.Name, Ver: d.Req}
			switch sec {
			case "dev":
				r.Dev = true
			case "opt":
				r.Opt = true
			case "peer":
				r.Scope = "peer"
			}
			if rest, ok := strings.CutPrefix(d.Req, "npm:"); ok {
				r.Alias = d.Name
				if i := strings.LastIndex(rest, "@"); i >= 0 {
					r.Pkg, r.Ver = rest[:i], rest[i+1:]
				}
			}
			out = append(out, r)
		}
	}
	for _, d := range ds {
		if d.Section == "bundleDep" {
			out = append(out, univ.Req{Pkg: d.Name, Ver: "*", Scope: "bundle"})
		}
	}
	return out
}

func c18Mangled(root svcVersion, path []string) string {
	return root.Name + ">" + root.Version + ">" + strings.Join(path, ">")
}

// c18Model turns the service contents into the universe the in-memory client should hold.
func c18Model(s svcContents) univ.Universe {
	u := univ.Universe{Sys: "NPM"}
	for _, v := range s.Vers {
		rec := univ.Ver{Pkg: v.Name, Ver: v.Version, Reqs: c18Flatten(v.Deps)}
		if v.Default {
			rec.Tags = "latest"
		}
		for _, b := range v.Bundled {
			brec := univ.Ver{Pkg: c18Mangled(v, b.Path), Ver: b.Version, Derived: b.Name, Reqs: c18Flatten(b.Deps)}
			for _, c := range v.Bundled {
				if len(c.Path) == len(b.Path)+1 && strings.Join(c.Path[:len(b.Path)], "/") == strings.Join(b.Path, "/") {
					brec.Reqs = append(brec.Reqs, univ.Req{Pkg: c18Mangled(v, c.Path), Ver: c.Version})
				}
			}
			if len(b.Path) == 1 {
				rec.Reqs = append(rec.Reqs, univ.Req{Pkg: brec.Pkg, Ver: b.Version})
			}
			u.Vers = append(u.Vers, brec)
		}
		u.Vers = append(u.Vers, rec)
	}
	return u
}

func reqSig(rs []resolve.RequirementVersion) []string {
	out := make([]string, len(rs))
	for i, r := range rs {
		// every accessor, not only String(): GetAttr reads the value map directly while String follows the key bitmask
		var sb strings.Builder
		for _, k := range depAllKeys {
			if v, ok := r.Type.GetAttr(k.dk); ok {
				fmt.Fprintf(&sb, "%s=%q,", k.name, v)
			}
		}
		out[i] = fmt.Sprintf("%s@%s{%s|%s}", r.Name, r.Version, r.Type.String(), sb.String())
	}
	sort.Strings(out)
	return out
}

func verSig(vs []resolve.Version) []string {
	out := make([]string, len(vs))
	for i, v := range vs {
		out[i] = v.Name + "@" + v.Version + v.AttrSet.String()
	}
	sort.Strings(out)
	return out
}

// c18Check compares the API-backed client with the model client on one service contents.
func c18Check(s svcContents, roots [][2]string) (fails []string, resolves int) {
	model := c18Model(s)
	fail := func(clause, msg string) { fails = append(fails, clause+": "+msg) }
	for _, root := range roots {
		fake := &fakeInsights{s: s}
		api := resolve.NewAPIClient(fake)
		lc := model.Client(nil)
		rvk := model.VK(root[0], root[1])
		// resolving through the API client equals resolving the same data in the in-memory client
		ga, erra := npmres.NewResolver(api).Resolve(ctxBG, rvk)
		gl, errl := npmres.NewResolver(lc).Resolve(ctxBG, rvk)
		resolves += 2
		if da, dl := graphDump(ga, erra), graphDump(gl, errl); da != dl {
			fail("resolve", fmt.Sprintf("Resolve(%s@%s) through the API client gives %s; the same data in a LocalClient gives %s", root[0], root[1], da, dl))
		}
		// a resolution leaves what the clients serve as it was: the requirements a client hands out are its own
		// stored values (bundled entries in the API client, everything in the in-memory one), shared with every other
		// caller; read through every accessor, they must still be the documented mapping afterwards
		if erra == nil && errl == nil {
			for _, mv := range model.Vers {
				vk := model.VK(mv.Pkg, mv.Ver)
				want := strings.Join(reqSig(model.Requirements(mv)), " ")
				if rs, err := lc.Requirements(ctxBG, vk); err == nil && strings.Join(reqSig(rs), " ") != want {
					fail("unchanged", fmt.Sprintf("after Resolve(%s@%s) the in-memory client serves Requirements(%s@%s) = %v, loaded were %s", root[0], root[1], mv.Pkg, mv.Ver, reqSig(rs), want))
				}
				if mv.Derived == "" {
					continue
				}
				if rs, err := api.Requirements(ctxBG, vk); err == nil && strings.Join(reqSig(rs), " ") != want {
					fail("unchanged", fmt.Sprintf("after Resolve(%s@%s) the API client serves Requirements(%s@%s) = %v, the documented mapping gives %s", root[0], root[1], mv.Pkg, mv.Ver, reqSig(rs), want))
				}
			}
		}
		// after Requirements(root) every bundled entry is served consistently by the four calls
		api = resolve.NewAPIClient(&fakeInsights{s: s})
		rootReqs, err := api.Requirements(ctxBG, rvk)
		if err != nil {
			fail("requirements", fmt.Sprintf("Requirements(%s@%s): %v", root[0], root[1], err))
			continue
		}
		rv, _ := s.find(root[0], root[1])
		mrec, _ := model.Find(root[0], root[1])
		if got, want := reqSig(rootReqs), reqSig(model.Requirements(mrec)); strings.Join(got, " ") != strings.Join(want, " ") {
			fail("requirements", fmt.Sprintf("Requirements(%s@%s) = %v, the documented mapping gives %v", root[0], root[1], got, want))
		}
		for _, b := range rv.Bundled {
			m := c18Mangled(rv, b.Path)
			bvk := resolve.VersionKey{PackageKey: resolve.PackageKey{System: resolve.NPM, Name: m}, VersionType: resolve.Concrete, Version: b.Version}
			v, err := api.Version(ctxBG, bvk)
			if err != nil {
				fail("bundle", fmt.Sprintf("Version(%s@%s): %v", m, b.Version, err))
				continue
			}
			if df, _ := v.GetAttr(version.DerivedFrom); df != b.Name {
				fail("bundle", fmt.Sprintf("Version(%s) DerivedFrom=%q, the bundle declares name %q", m, df, b.Name))
			}
			vs, err := api.Versions(ctxBG, bvk.PackageKey)
			if err != nil || len(vs) != 1 || vs[0].VersionKey != bvk {
				fail("bundle", fmt.Sprintf("Versions(%s) = %v (%v), want exactly %s", m, verSig(vs), err, b.Version))
			}
			rk := bvk
			rk.VersionType = resolve.Requirement
			ms, err := api.MatchingVersions(ctxBG, rk)
			if err != nil || len(ms) != 1 || ms[0].VersionKey != bvk {
				fail("bundle", fmt.Sprintf("MatchingVersions(%s@%s) = %v (%v), want exactly that version", m, b.Version, verSig(ms), err))
			}
			brec, _ := model.Find(m, b.Version)
			rs, err := api.Requirements(ctxBG, bvk)
			if err != nil {
				fail("bundle", fmt.Sprintf("Requirements(%s): %v", m, err))
			} else if got, want := reqSig(rs), reqSig(model.Requirements(brec)); strings.Join(got, " ") != strings.Join(want, " ") {
				fail("bundle", fmt.Sprintf("Requirements(%s) = %v, the documented mapping gives %v", m, got, want))
			}
			// the bundling parent requires it with a requirement matching exactly that version
			parent := rootReqs
			if len(b.Path) > 1 {
				pm := c18Mangled(rv, b.Path[:len(b.Path)-1])
				for _, pbd := range rv.Bundled {
					if c18Mangled(rv, pbd.Path) == pm {
						parent, _ = api.Requirements(ctxBG, resolve.VersionKey{PackageKey: resolve.PackageKey{System: resolve.NPM, Name: pm}, VersionType: resolve.Concrete, Version: pbd.Version})
					}
				}
			}
			found := false
			for _, pr := range parent {
				if pr.Name == m && pr.Version == b.Version && pr.Type.IsRegular() {
					found = true
				}
			}
			if !found {
				fail("bundle", fmt.Sprintf("the parent of %s does not require it at %s", m, b.Version))
			}
		}
		// aliases: npm:name@range becomes a requirement on the real name carrying the alias
		for _, d := range rv.Deps {
			rest, ok := strings.CutPrefix(d.Req, "npm:")
			if !ok {
				continue
			}
			i := strings.LastIndex(rest, "@")
			found := false
			for _, r := range rootReqs {
				ka, _ := r.Type.GetAttr(dep.KnownAs)
				if r.Name == rest[:i] && r.Version == rest[i+1:] && ka == d.Name {
					found = true
				}
			}
			if !found {
				fail("alias", fmt.Sprintf("dependency %s: %q did not become a requirement on %s@%s known as %s: %v", d.Name, d.Req, rest[:i], rest[i+1:], d.Name, reqSig(rootReqs)))
			}
		}
		// every ordinary key answers like the model
		for _, v := range s.Vers {
			vk := model.VK(v.Name, v.Version)
			av, erra := api.Version(ctxBG, vk)
			lv, errl := lc.Version(ctxBG, vk)
			if (erra == nil) != (errl == nil) || (erra == nil && av.AttrSet.String() != lv.AttrSet.String()) {
				fail("mirror", fmt.Sprintf("Version(%s@%s): API %v/%v, LocalClient %v/%v", v.Name, v.Version, av, erra, lv, errl))
			}
			avs, erra := api.Versions(ctxBG, vk.PackageKey)
			lvs, errl := lc.Versions(ctxBG, vk.PackageKey)
			if (erra == nil) != (errl == nil) || strings.Join(verSig(avs), " ") != strings.Join(verSig(lvs), " ") {
				fail("mirror", fmt.Sprintf("Versions(%s): API %v/%v, LocalClient %v/%v", v.Name, verSig(avs), erra, verSig(lvs), errl))
			}
			for _, req := range []string{"^1.0.0", "*", "latest", "2.0.0"} {
				rk := vk
				rk.VersionType, rk.Version = resolve.Requirement, req
				am, erra := api.MatchingVersions(ctxBG, rk)
				lm, errl := lc.MatchingVersions(ctxBG, rk)
				if (erra == nil) != (errl == nil) || verStrings(am) != verStrings(lm) {
					fail("mirror", fmt.Sprintf("MatchingVersions(%s@%s): API [%s]/%v, LocalClient [%s]/%v", v.Name, req, verStrings(am), erra, verStrings(lm), errl))
				}
			}
		}
		// a never-served key is reported as not found
		if _, err := api.Version(ctxBG, model.VK("nosuch", "1.0.0")); !errors.Is(err, resolve.ErrNotFound) {
			fail("mirror", fmt.Sprintf("Version(nosuch): %v, want ErrNotFound", err))
		}
		if _, err := api.Version(ctxBG, model.VK("p>9.9.9>b", "1.0.0")); !errors.Is(err, resolve.ErrNotFound) {
			fail("mirror", fmt.Sprintf("Version of an unknown bundle: %v, want ErrNotFound", err))
		}
	}
	return fails, resolves
}

// ---- enumeration of service contents ----

var c18DepOptions = []svcDep{
	{"dep", "b", "^1.0.0"}, {"dep", "b", "2.0.0"}, {"dep", "c", "*"}, {"dep", "@s/d", "^1.0.0"},
	{"dep", "x", "npm:b@^1.0.0"}, {"dep", "y", "npm:@s/d@^1.0.0"},
	{"dev", "c", "^1.0.0"}, {"opt", "c", "^2.0.0"}, {"peer", "b", "*"}, {"peer", "z", "npm:c@^1.0.0"}, {"bundleDep", "b", ""},
}

// bundle positions: path, declared name (differs from the last path element for an alias install)
var c18BundlePos = []struct {
	path []string
	name string
}{
	{[]string{"b"}, "b"}, {[]string{"c"}, "c"}, {[]string{"@s/d"}, "@s/d"}, {[]string{"x"}, "b"},
	{[]string{"b", "c"}, "c"}, {[]string{"b", "@s/d"}, "@s/d"}, {[]string{"c", "b"}, "b"},
	{[]string{"b", "c", "@s/d"}, "@s/d"}, {[]string{"b", "c", "b"}, "b"},
	// nested folders named by an alias: the folder name differs from the package inside
	{[]string{"b", "x"}, "c"}, {[]string{"c", "y"}, "b"},
}

func c18Base() svcContents {
	return svcContents{Vers: []svcVersion{
		{Name: "p", Version: "1.0.0", Default: true},
		{Name: "q", Version: "1.0.0", Default: true},
		{Name: "b", Version: "1.0.0"}, {Name: "b", Version: "2.0.0", Default: true},
		{Name: "c", Version: "1.0.0"}, {Name: "c", Version: "2.0.0", Default: true},
		{Name: "@s/d", Version: "1.0.0", Default: true},
	}}
}

// c18Space: slots = bundle positions under p (2 version options; deeper ones require their parent),
// dependency options on p, on q, on b@1.0.0 and on each bundle position.
func c18Space() (slots []univ.Slot, build func(picks []univ.Pick) (svcContents, bool)) {
	nb := len(c18BundlePos)
	for i, bp := range c18BundlePos {
		req := -1
		if len(bp.path) > 1 {
			for j, pj := range c18BundlePos {
				if len(pj.path) == len(bp.path)-1 && strings.Join(pj.path, "/") == strings.Join(bp.path[:len(bp.path)-1], "/") {
					req = j
				}
			}
		}
		_ = i
		slots = append(slots, univ.Slot{Options: 2, Requires: req})
	}
	owners := 3 + nb // p, q, b@1.0.0, bundles
	nd := len(c18DepOptions)
	for o := 0; o < owners; o++ {
		for range c18DepOptions {
			req := -1
			if o >= 3 {
				req = o - 3
			}
			slots = append(slots, univ.Slot{Options: 1, Requires: req})
		}
	}
	build = func(picks []univ.Pick) (svcContents, bool) {
		s := c18Base()
		s.Vers = append([]svcVersion(nil), s.Vers...)
		bundleIdx := map[int]int{}
		for _, p := range picks {
			if p.Slot < nb {
				bp := c18BundlePos[p.Slot]
				s.Vers[0].Bundled = append(s.Vers[0].Bundled, svcBundle{Path: bp.path, Name: bp.name, Version: []string{"1.0.0", "2.0.0"}[p.Opt]})
				bundleIdx[p.Slot] = len(s.Vers[0].Bundled) - 1
			}
		}
		for _, p := range picks {
			if p.Slot < nb {
				continue
			}
			o, di := (p.Slot-nb)/nd, (p.Slot-nb)%nd
			d := c18DepOptions[di]
			switch {
			case o == 0:
				s.Vers[0].Deps = append(s.Vers[0].Deps, d)
			case o == 1:
				s.Vers[1].Deps = append(s.Vers[1].Deps, d)
			case o == 2:
				s.Vers[2].Deps = append(s.Vers[2].Deps, d)
			default:
				bi := bundleIdx[o-3]
				s.Vers[0].Bundled[bi].Deps = append(s.Vers[0].Bundled[bi].Deps, d)
			}
		}
		// one package.json cannot list the same name twice in one section, nor alias and package of one name
		for _, v := range s.Vers {
			if dupNames(v.Deps) {
				return s, false
			}
			for _, b := range v.Bundled {
				if dupNames(b.Deps) {
					return s, false
				}
			}
		}
		return s, true
	}
	return
}

func dupNames(ds []svcDep) bool {
	seen := map[string]bool{}
	for _, d := range ds {
		if d.Section == "bundleDep" {
			continue
		}
		if seen[d.Name] {
			return true
		}
		seen[d.Name] = true
	}
	return false
}

// ---- concurrency (E3) ----

// c18Schedules explores the interleavings of threads using one APIClient. Thread 0 resolves p@1.0.0, thread 1
// runs a script of client calls on the bundles of p (or resolves q). The oracle: graphs equal the sequential
// reference; a bundle is visible atomically with its requirements and nested bundles; no deadlock.
func c18Schedules(s svcContents, bound int, stop func() bool) (fails []string, st sched.Stats, outcomes map[string]bool) {
	model := c18Model(s)
	rootP := model.VK("p", "1.0.0")
	refP := func() string {
		g, err := npmres.NewResolver(resolve.NewAPIClient(&fakeInsights{s: s})).Resolve(ctxBG, rootP)
		return graphDump(g, err)
	}()
	rv, _ := s.find("p", "1.0.0")
	outcomes = map[string]bool{}
	seen := map[string]bool{}
	st = sched.ExploreCapped(bound, 400, func() ([]func(), func(e *sched.Exec)) {
		api := resolve.NewAPIClient(&fakeInsights{s: s})
		var res0, res1 string
		var probe []string
		bodies := []func(){
			func() {
				g, err := npmres.NewResolver(api).Resolve(ctxBG, rootP)
				res0 = graphDump(g, err)
			},
			func() {
				// probe every bundle: if it is visible, its requirements and nested bundles must be too
				for _, b := range rv.Bundled {
					m := c18Mangled(rv, b.Path)
					bvk := resolve.VersionKey{PackageKey: resolve.PackageKey{System: resolve.NPM, Name: m}, VersionType: resolve.Concrete, Version: b.Version}
					v, err := api.Version(ctxBG, bvk)
					if err != nil {
						probe = append(probe, m+":absent")
						continue
					}
					df, _ := v.GetAttr(version.DerivedFrom)
					rs, rerr := api.Requirements(ctxBG, bvk)
					brec, _ := model.Find(m, b.Version)
					state := "visible"
					if df != b.Name {
						state = "visible-but-derivedfrom=" + df
					}
					if rerr != nil {
						state = "visible-without-requirements"
					} else if got, want := reqSig(rs), reqSig(model.Requirements(brec)); strings.Join(got, " ") != strings.Join(want, " ") {
						state = fmt.Sprintf("visible-with-partial-requirements %v want %v", got, want)
					} else {
						for _, r := range rs {
							if strings.Contains(r.Name, ">") {
								nk := r.VersionKey
								nk.VersionType = resolve.Concrete
								if _, err := api.Version(ctxBG, nk); err != nil {
									state = "visible-but-nested-bundle-absent:" + r.Name
								}
							}
						}
					}
					probe = append(probe, m+":"+state)
				}
				g, err := npmres.NewResolver(api).Resolve(ctxBG, rootP)
				res1 = graphDump(g, err)
			},
		}
		return bodies, func(e *sched.Exec) {
			sc := intsToString(e.Schedule())
			add := func(clause, msg string) {
				if !seen[clause] {
					seen[clause] = true
					fails = append(fails, clause+": "+msg+"\n  schedule (thread ids): "+sc+"\n  choices: "+intsToString(e.Choices()))
				}
			}
			if e.Diverged != "" {
				core.Harness("C18 scheduler diverged while replaying a prefix: %s", e.Diverged)
			}
			if e.Deadlock {
				add("deadlock", "no enabled thread before all finished")
				return
			}
			if res0 != refP {
				add("concurrent", fmt.Sprintf("thread 0 Resolve(p) gives %s, sequential reference %s", res0, refP))
			}
			if res1 != refP {
				add("concurrent", fmt.Sprintf("thread 1 Resolve(p) gives %s, sequential reference %s", res1, refP))
			}
			for _, p := range probe {
				if !strings.HasSuffix(p, ":absent") && !strings.HasSuffix(p, ":visible") {
					add("atomic", "a bundle became visible without all of its data: "+p)
				}
			}
			outcomes[strings.Join(probe, ",")] = true
		}
	}, stop)
	return
}

// C18 decides the API-client property.
func C18(tier string) {
	run := core.NewRun("C18", tier, c18Replay)
	quick := tier == "quick"
	dev, sdev, bound := 4, 3, 3
	if quick {
		dev, sdev, bound = 3, 2, 2
		run.SetBudget(150 * time.Second)
	} else {
		run.SetBudget(2400 * time.Second)
	}
	run.Cov["rule"] = "fake Insights service contents = all deviation sets up to the bound over: bundle positions under p@1.0.0 (paths up to depth 3 over b, c, @s/d and an alias directory x; two versions), dependency entries (regular, dev, optional, peer, bundleDependencies, aliases npm:b@^1.0.0, npm:@s/d@^1.0.0) on p, q, b@1.0.0 and on every bundled entry; E1: API client vs the documented mapping loaded into a LocalClient (four client calls for every bundle and ordinary key, alias mapping, Resolve equality); E3: all interleavings with <= bound preemptions of two threads on one APIClient (scheduling points: mutex operations through the vsync shim, RPC entry and return), oracle: graphs equal the sequential reference, bundles visible atomically, no deadlock"
	slots, build := c18Space()
	var contents, resolves, nontrivial int64
	var batch []svcContents
	flush := func() {
		// serial on purpose: state shared between API clients (a package-level variable, say) must show up as a
		// wrong answer in a deterministic order of calls, not as a data race between harness goroutines
		for i := range batch {
			fails, n := c18Check(batch[i], [][2]string{{"p", "1.0.0"}, {"q", "1.0.0"}})
			atomic.AddInt64(&resolves, int64(n))
			for _, f := range fails {
				clause, _, _ := strings.Cut(f, ":")
				run.Fail(core.Join("svc", clause, batch[i].encode()), f)
			}
		}
		batch = batch[:0]
	}
	// E3 workers in child processes, started first
	type e3res struct {
		scen, sch, pts, deadlocks, outs, tooLarge int64
		complete                                  bool
	}
	e3ch := make(chan e3res, 1)
	go func() {
		self, _ := os.Executable()
		nsh := 8
		var r e3res
		r.complete = true
		var wg sync.WaitGroup
		var mu sync.Mutex
		for sh := 0; sh < nsh; sh++ {
			wg.Add(1)
			go func(sh int) {
				defer wg.Done()
				secs := int64(time.Until(run.Deadline())/time.Second) - 5
				if secs < 10 {
					secs = 10
				}
				cmd := exec.Command(self, "C18", "--sched", strconv.Itoa(sdev), strconv.Itoa(bound), strconv.Itoa(sh), strconv.Itoa(nsh), strconv.FormatInt(secs, 10))
				cmd.Env = append(os.Environ(), "GOMAXPROCS=2")
				b, err := cmd.Output()
				mu.Lock()
				defer mu.Unlock()
				done := false
				for _, line := range strings.Split(string(b), "\n") {
					f := strings.SplitN(line, "\t", 3)
					switch f[0] {
					case "F":
						w, _ := strconv.Unquote(f[1])
						d, _ := strconv.Unquote(f[2])
						run.Fail(w, d)
					case "S":
						var a [7]int64
						fmt.Sscanf(f[1], "%d %d %d %d %d %d %d", &a[0], &a[1], &a[2], &a[3], &a[4], &a[5], &a[6])
						r.scen += a[0]
						r.sch += a[1]
						r.pts += a[2]
						r.deadlocks += a[3]
						r.outs += a[4]
						if a[5] == 0 {
							r.complete = false
						}
						r.tooLarge += a[6]
						done = true
					case "H":
						core.Harness("C18 schedule worker: %s", line)
					}
				}
				if !done {
					core.Harness("C18 schedule worker %d ended without a summary: %v", sh, err)
				}
			}(sh)
		}
		wg.Wait()
		e3ch <- r
	}()
	stopped := false
	univ.Enumerate(slots, dev, func(picks []univ.Pick) {
		if stopped {
			return
		}
		s, ok := build(picks)
		if !ok {
			return
		}
		contents++
		if len(s.Vers[0].Bundled) > 0 {
			nontrivial++
		}
		batch = append(batch, s)
		if len(batch) >= 4096 {
			flush()
			if run.OutOfTime("C18 sequential") || run.Violations() > 300 {
				stopped = true
			}
		}
	})
	flush()
	if stopped {
		run.Cap("sequential enumeration stopped early")
	}
	e3 := <-e3ch
	if !e3.complete {
		run.Cap("schedule exploration did not finish within the time budget")
	}
	run.Cov["states"] = contents
	run.Cov["transitions"] = resolves + e3.pts
	run.Cov["traces_validated_against_impl"] = e3.sch
	run.Cov["evaluations"] = resolves
	run.Cov["distinct_nontrivial"] = nontrivial
	run.Cov["schedules"] = e3.sch
	run.Cov["sequential"] = map[string]any{"service_contents": contents, "with_bundles": nontrivial, "resolutions": resolves, "deviation_bound": dev, "completed": !stopped}
	run.Cov["concurrent"] = map[string]any{"scenarios": e3.scen, "schedules": e3.sch, "scheduling_points": e3.pts, "preemption_bound": bound, "deviation_bound": sdev, "deadlocks": e3.deadlocks,
		"distinct_probe_outcomes": e3.outs, "complete": e3.complete, "scenarios_over_400_points_default_schedule_only": e3.tooLarge}
	run.Outcome(fmt.Sprintf("contents=%d", contents))
	run.Outcome(fmt.Sprintf("schedules=%d", e3.sch))
	run.Sample(map[string]any{"service": svcContents{Vers: []svcVersion{{Name: "p", Version: "1.0.0", Deps: []svcDep{{"dep", "x", "npm:b@^1.0.0"}}, Bundled: []svcBundle{{Path: []string{"b"}, Name: "b", Version: "2.0.0"}, {Path: []string{"b", "c"}, Name: "c", Version: "1.0.0"}}}}}})
	run.Assumptions = []string{"plain memory accesses between scheduling points are not interleaved by the cooperative scheduler; unsynchronised access to the bundle map is outside what E3 sees (the map is only touched under the mutex in the explored code)", "the reference mapping is a 60-line model written from the API client's documentation"}
	runRacePass(run, "C18", tier)
	run.Finish()
}

// C18SchedWorker: argv dev bound shard nshards seconds
func C18SchedWorker(argv []string) {
	dev, _ := strconv.Atoi(argv[0])
	bound, _ := strconv.Atoi(argv[1])
	shard, _ := strconv.Atoi(argv[2])
	nsh, _ := strconv.Atoi(argv[3])
	secs, _ := strconv.Atoi(argv[4])
	deadline := time.Now().Add(time.Duration(secs) * time.Second)
	slots, build := c18Space()
	var scen, sch, pts, deadlocks, outs, tooLarge int64
	complete := int64(1)
	idx := 0
	nfail := 0
	univ.Enumerate(slots, dev, func(picks []univ.Pick) {
		s, ok := build(picks)
		if !ok || len(s.Vers[0].Bundled) == 0 && len(s.Vers[0].Deps) == 0 {
			return
		}
		idx++
		if idx%nsh != shard || nfail > 50 {
			return
		}
		if time.Now().After(deadline) {
			complete = 0
			return
		}
		fails, st, o := c18Schedules(s, bound, func() bool { return time.Now().After(deadline) })
		scen++
		sch += st.Schedules
		pts += st.Points
		deadlocks += st.Deadlocks
		outs += int64(len(o))
		if !st.Complete {
			complete = 0
		}
		if st.TooLarge {
			tooLarge++
		}
		for _, f := range fails {
			clause, _, _ := strings.Cut(f, ":")
			nfail++
			fmt.Printf("F\t%s\t%s\n", strconv.Quote(core.Join("sched", clause, strconv.Itoa(bound), s.encode())), strconv.Quote(f))
		}
	})
	fmt.Printf("S\t%d %d %d %d %d %d %d\n", scen, sch, pts, deadlocks, outs, complete, tooLarge)
}

func c18Replay(w string) (bool, string) {
	p := core.Split(w)
	var s svcContents
	switch p[0] {
	case "race":
		return raceReplay(p[1], p[2])
	case "svc":
		if json.Unmarshal([]byte(p[2]), &s) != nil {
			return true, "bad contents"
		}
		fails, _ := c18Check(s, [][2]string{{"p", "1.0.0"}, {"q", "1.0.0"}})
		var rel []string
		for _, f := range fails {
			if strings.HasPrefix(f, p[1]+":") {
				rel = append(rel, f)
			}
		}
		sort.Strings(rel)
		return len(rel) == 0, strings.Join(rel, "\n")
	case "sched":
		if json.Unmarshal([]byte(p[3]), &s) != nil {
			return true, "bad contents"
		}
		b, _ := strconv.Atoi(p[2])
		fails, _, _ := c18Schedules(s, b, nil)
		var rel []string
		for _, f := range fails {
			if strings.HasPrefix(f, p[1]+":") {
				rel = append(rel, f)
			}
		}
		return len(rel) == 0, strings.Join(rel, "\n")
	}
	return true, "unknown"
}
