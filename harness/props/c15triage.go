package props

import (
	"bufio"
	"encoding/json"
	"encoding/xml"
	"fmt"
	"os"
	"sort"
	"strings"

	"deps.dev/util/maven"
	"verif/harness/core"
	"verif/harness/pom"
)

// Triage of C15 disagreements (offline aid, not part of a check): every witness of a dump is explained by the smallest
// set of known divergences that, once neutralised on the input or on Maven's answer, makes the library agree with
// Maven. A witness no set explains is printed as UNEXPLAINED. The known-findings lists are built from this output, so
// that a listed witness is known to fail for the listed reason and for no other.

type c15Norm struct {
	name string
	in   func(l *pom.Lineage)   // rewrites the input, or nil
	out  func(want *pom.Result) // rewrites Maven's answer, or nil
}

func depKey(d pom.Dep) string {
	t := d.Type
	if t == "" {
		t = "jar"
	}
	return d.G + ":" + d.A + ":" + t + ":" + d.Classifier
}

// lastWins applies Maven's per-file normalisation: of several declarations with one key the last one stays, at the first one's place.
func lastWins(ds []pom.Dep) []pom.Dep {
	pos := map[string]int{}
	var out []pom.Dep
	for _, d := range ds {
		k := depKey(d)
		if i, ok := pos[k]; ok {
			out[i] = d
			continue
		}
		pos[k] = len(out)
		out = append(out, d)
	}
	return out
}

func mavenJDKActive(jdk, version string) bool {
	if strings.HasPrefix(jdk, "!") {
		return !strings.HasPrefix(version, jdk[1:])
	}
	return strings.HasPrefix(version, jdk)
}

// activeProfiles asks the library which profiles of the file it merges.
func activeProfiles(f pom.POM) []int {
	probe := f
	probe.Deps, probe.Mgmt, probe.Props = nil, nil, nil
	probe.Profiles = nil
	for i, p := range f.Profiles {
		probe.Profiles = append(probe.Profiles, pom.Profile{ID: p.ID, Act: p.Act, Deps: []pom.Dep{{G: "probe", A: fmt.Sprint(i), V: "1"}}})
	}
	var proj maven.Project
	if err := xml.NewDecoder(strings.NewReader(probe.XML())).Decode(&proj); err != nil {
		return nil
	}
	if err := proj.MergeProfiles(maven.JDKProfileActivation, maven.OSProfileActivation); err != nil {
		return nil
	}
	var out []int
	for _, d := range proj.Dependencies {
		var i int
		fmt.Sscan(string(d.ArtifactID), &i)
		out = append(out, i)
	}
	sort.Ints(out)
	return out
}

var c15Norms = []c15Norm{
	{name: "duplicate-declaration-first-wins", in: func(l *pom.Lineage) {
		for i := range l.Files {
			l.Files[i].Deps = lastWins(l.Files[i].Deps)
			l.Files[i].Mgmt = lastWins(l.Files[i].Mgmt)
			for j := range l.Files[i].Profiles {
				l.Files[i].Profiles[j].Deps = lastWins(l.Files[i].Profiles[j].Deps)
				l.Files[i].Profiles[j].Mgmt = lastWins(l.Files[i].Profiles[j].Mgmt)
			}
		}
	}},
	{name: "jdk-activation-not-prefix-match", in: func(l *pom.Lineage) {
		for i := range l.Files {
			for j := range l.Files[i].Profiles {
				a := &l.Files[i].Profiles[j].Act
				if a.JDK == "" || strings.ContainsAny(a.JDK, "[(,") {
					continue
				}
				if mavenJDKActive(a.JDK, maven.JDKProfileActivation) {
					a.JDK = "[1.8,)"
				} else {
					a.JDK = "1.7"
				}
			}
		}
	}},
	{name: "artifactId-expressions-undefined", in: func(l *pom.Lineage) {
		// the project's parent chain is interpolated in the project's context
		chain := map[string]bool{}
		byKey := map[string]int{}
		for i, f := range l.Files {
			byKey[pom.CoordKey(f.Coord)] = i
		}
		cur := 0
		for n := 0; n < 10; n++ {
			chain[pom.CoordKey(l.Files[cur].Coord)] = true
			p := l.Files[cur].Parent
			if p == nil {
				break
			}
			nx, ok := byKey[pom.CoordKey(*p)]
			if !ok {
				break
			}
			cur = nx
		}
		own := l.Files[0].Coord[1]
		par := ""
		if l.Files[0].Parent != nil {
			par = l.Files[0].Parent[1]
		}
		rep := func(s string) string {
			for _, pre := range []string{"project.", "pom.", ""} {
				s = strings.ReplaceAll(s, "${"+pre+"artifactId}", own)
				if par != "" {
					s = strings.ReplaceAll(s, "${"+pre+"parent.artifactId}", par)
				}
			}
			return s
		}
		fix := func(ds []pom.Dep) {
			for k := range ds {
				ds[k].G, ds[k].A, ds[k].V, ds[k].Scope, ds[k].Classifier, ds[k].Type = rep(ds[k].G), rep(ds[k].A), rep(ds[k].V), rep(ds[k].Scope), rep(ds[k].Classifier), rep(ds[k].Type)
			}
		}
		for i := range l.Files {
			if !chain[pom.CoordKey(l.Files[i].Coord)] {
				continue
			}
			fix(l.Files[i].Deps)
			fix(l.Files[i].Mgmt)
			for j := range l.Files[i].Profiles {
				fix(l.Files[i].Profiles[j].Deps)
				fix(l.Files[i].Profiles[j].Mgmt)
			}
		}
	}},
	{name: "imported-bom-parent-expressions-undefined", in: func(l *pom.Lineage) {
		// an imported BOM is built from an empty project whose <parent> is never filled in
		for i := range l.Files {
			f := &l.Files[i]
			if i == 0 || f.Parent == nil || !strings.HasPrefix(f.Coord[1], "b") {
				continue
			}
			rep := func(s string) string {
				for _, pre := range []string{"project.", "pom.", ""} {
					s = strings.ReplaceAll(s, "${"+pre+"parent.version}", f.Parent[2])
					s = strings.ReplaceAll(s, "${"+pre+"parent.groupId}", f.Parent[0])
				}
				return s
			}
			for k := range f.Mgmt {
				f.Mgmt[k].V, f.Mgmt[k].G = rep(f.Mgmt[k].V), rep(f.Mgmt[k].G)
			}
		}
	}},
	{name: "unresolved-placeholder-drops-declaration", out: func(want *pom.Result) {
		keep := func(xs []string) []string {
			out := []string{}
			for _, x := range xs {
				// exclusions keep their placeholders on both sides
				head, _, _ := strings.Cut(x, " excl=[")
				if !strings.Contains(head, "${") {
					out = append(out, x)
				}
			}
			return out
		}
		want.Deps, want.Mgmt = keep(want.Deps), keep(want.Mgmt)
	}},
	{name: "profile-declaration-not-dominant", in: func(l *pom.Lineage) {
		for i := range l.Files {
			f := &l.Files[i]
			act := activeProfiles(*f)
			if len(act) == 0 {
				continue
			}
			inline := func(own []pom.Dep, add []pom.Dep) []pom.Dep {
				for _, d := range add {
					replaced := false
					for k := range own {
						if depKey(own[k]) == depKey(d) {
							own[k] = d
							replaced = true
						}
					}
					if !replaced {
						own = append(own, d)
					}
				}
				return own
			}
			for _, pi := range act {
				p := f.Profiles[pi]
				f.Props = append(f.Props, p.Props...)
				f.Deps = inline(f.Deps, p.Deps)
				f.Mgmt = inline(f.Mgmt, p.Mgmt)
			}
			f.Profiles = nil
		}
	}},
}

// c15Explain returns the smallest set of divergences that explains the disagreement, or ok=false.
func c15Explain(l pom.Lineage, want pom.Result) (names []string, ok bool) {
	n := len(c15Norms)
	best := -1
	for mask := 0; mask < 1<<n; mask++ {
		if best >= 0 && popcount(mask) >= popcount(best) {
			continue
		}
		ll := l.Clone()
		w := pom.Result{Deps: append([]string{}, want.Deps...), Mgmt: append([]string{}, want.Mgmt...)}
		// input rewrites in a fixed order: jdk first (the profile inlining asks the library which profiles are active)
		for _, i := range []int{1, 2, 0, 3, 5} {
			if mask&(1<<i) != 0 && c15Norms[i].in != nil {
				c15Norms[i].in(&ll)
			}
		}
		for i := range c15Norms {
			if mask&(1<<i) != 0 && c15Norms[i].out != nil {
				c15Norms[i].out(&w)
			}
		}
		if got := pom.Effective(ll); got.Err == "" && got.Equal(w) {
			best = mask
		}
	}
	if best < 0 {
		return nil, false
	}
	for i := range c15Norms {
		if best&(1<<i) != 0 {
			names = append(names, c15Norms[i].name)
		}
	}
	return names, true
}

func popcount(x int) int {
	n := 0
	for ; x > 0; x &= x - 1 {
		n++
	}
	return n
}

// C15Triage reads a VERIF_DUMP_WITNESSES file and writes <out>: one JSON line per witness {"w","classes"}.
func C15Triage(dump, out string) {
	f, err := os.Open(dump)
	if err != nil {
		core.Harness("%v", err)
	}
	defer f.Close()
	o, err := os.Create(out)
	if err != nil {
		core.Harness("%v", err)
	}
	defer o.Close()
	sc := bufio.NewScanner(f)
	sc.Buffer(make([]byte, 1<<20), 1<<26)
	counts := map[string]int{}
	for sc.Scan() {
		var rec struct{ W, D string }
		if err := json.Unmarshal(sc.Bytes(), &rec); err != nil {
			core.Harness("%v", err)
		}
		p := core.Split(rec.W)
		cls := "UNEXPLAINED"
		if p[0] == "pom" {
			l, _ := pom.FromJSON(p[1])
			var want pom.Result
			json.Unmarshal([]byte(p[2]), &want)
			if names, ok := c15Explain(l, want); ok {
				cls = strings.Join(names, "+")
			}
		}
		counts[cls]++
		if cls == "UNEXPLAINED" {
			fmt.Println("UNEXPLAINED", firstLineOf(rec.D), "\n   ", rec.D)
		}
		b, _ := json.Marshal(map[string]string{"w": rec.W, "classes": cls})
		o.Write(append(b, '\n'))
	}
	var ks []string
	for k := range counts {
		ks = append(ks, k)
	}
	sort.Strings(ks)
	for _, k := range ks {
		fmt.Printf("%6d %s\n", counts[k], k)
	}
}
