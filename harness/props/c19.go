package props

import (
	"fmt"
	"sort"
	"strconv"
	"strings"

	"deps.dev/util/resolve"
	"deps.dev/util/resolve/dep"
	"deps.dev/util/resolve/schema"
	"deps.dev/util/resolve/version"
	"verif/harness/bfs"
	"verif/harness/core"
)

// ---- a uniform view over dep.Type and version.AttrSet ----

type attrKey struct {
	name string
	flag bool // mask flag (value ignored)
	dk   dep.AttrKey
	vk   version.AttrKey
}

// attrVal is one variable of the search: exactly one of the two is used.
type attrVal struct {
	isDep bool
	d     dep.Type
	v     version.AttrSet
}

func (x *attrVal) add(k attrKey, val string) {
	if x.isDep {
		x.d.AddAttr(k.dk, val)
	} else {
		x.v.SetAttr(k.vk, val)
	}
}
func (x *attrVal) get(k attrKey) (string, bool) {
	if x.isDep {
		return x.d.GetAttr(k.dk)
	}
	return x.v.GetAttr(k.vk)
}
func (x *attrVal) has(k attrKey) bool {
	if x.isDep {
		return x.d.HasAttr(k.dk)
	}
	return x.v.HasAttr(k.vk)
}
func (x *attrVal) clone() attrVal {
	if x.isDep {
		return attrVal{isDep: true, d: x.d.Clone()}
	}
	return attrVal{v: x.v.Clone()}
}
func (x *attrVal) regular() bool {
	if x.isDep {
		return x.d.IsRegular()
	}
	return x.v.Empty()
}
func (x *attrVal) equal(y *attrVal) bool {
	if x.isDep {
		return x.d.Equal(y.d)
	}
	return x.v.Equal(y.v)
}
func (x *attrVal) str() string {
	if x.isDep {
		return x.d.String()
	}
	return x.v.String()
}

var depAllKeys = []attrKey{{"Dev", true, dep.Dev, 0}, {"Opt", true, dep.Opt, 0}, {"Test", true, dep.Test, 0}, {"XTest", false, dep.XTest, 0}, {"Framework", false, dep.Framework, 0},
	{"Scope", false, dep.Scope, 0}, {"MavenClassifier", false, dep.MavenClassifier, 0}, {"MavenArtifactType", false, dep.MavenArtifactType, 0}, {"MavenDependencyOrigin", false, dep.MavenDependencyOrigin, 0},
	{"EnabledDependencies", false, dep.EnabledDependencies, 0}, {"KnownAs", false, dep.KnownAs, 0}, {"MavenExclusions", false, dep.MavenExclusions, 0}, {"Environment", false, dep.Environment, 0}, {"Selector", false, dep.Selector, 0}}
var verAllKeys = []attrKey{{"Blocked", true, 0, version.Blocked}, {"Deleted", true, 0, version.Deleted}, {"Error", true, 0, version.Error}, {"Redirect", false, 0, version.Redirect}, {"Features", false, 0, version.Features},
	{"DerivedFrom", false, 0, version.DerivedFrom}, {"NativeLibrary", false, 0, version.NativeLibrary}, {"Registries", false, 0, version.Registries}, {"SupportedFrameworks", false, 0, version.SupportedFrameworks},
	{"DependencyGroups", false, 0, version.DependencyGroups}, {"Ident", false, 0, version.Ident}, {"Created", false, 0, version.Created}, {"Tags", false, 0, version.Tags}}

func keyByName(all []attrKey, n string) attrKey {
	for _, k := range all {
		if k.name == n {
			return k
		}
	}
	panic("no key " + n)
}

// model of one set: flags + map of valued keys
type attrModel map[string]string // flag keys map to "\x00flag"

func (m attrModel) clone() attrModel {
	c := attrModel{}
	for k, v := range m {
		c[k] = v
	}
	return c
}
func (m attrModel) canon() string {
	var ks []string
	for k := range m {
		ks = append(ks, k)
	}
	sort.Strings(ks)
	var sb strings.Builder
	for _, k := range ks {
		fmt.Fprintf(&sb, "%s=%q;", k, m[k])
	}
	return sb.String()
}

type c19Dom struct {
	name   string
	isDep  bool
	all    []attrKey
	keys   []attrKey // alphabet
	values []string
	probe  attrKey // a key outside the alphabet used by the aliasing probe
	ops    []c19Op
}

type c19Op struct {
	kind string // "addX","addY","cloneXY" (Y = X.Clone()),"cloneYX","zeroX","zeroY"
	key  int
	val  string
}

func (d *c19Dom) opString(o c19Op) string {
	switch o.kind {
	case "addX":
		return fmt.Sprintf("X.Add(%s,%q)", d.keys[o.key].name, o.val)
	case "addY":
		return fmt.Sprintf("Y.Add(%s,%q)", d.keys[o.key].name, o.val)
	case "cloneXY":
		return "Y=X.Clone()"
	case "cloneYX":
		return "X=Y.Clone()"
	case "zeroX":
		return "X=zero"
	case "zeroY":
		return "Y=zero"
	}
	return "?"
}

func c19Domain(isDep, quick bool) *c19Dom {
	d := &c19Dom{isDep: isDep}
	if isDep {
		d.name, d.all = "dep.Type", depAllKeys
		names := []string{"Dev", "Opt", "Test", "Scope", "KnownAs"}
		if !quick {
			names = append(names, "Selector")
		}
		for _, n := range names {
			d.keys = append(d.keys, keyByName(d.all, n))
		}
		d.probe = keyByName(d.all, "Framework")
	} else {
		d.name, d.all = "version.AttrSet", verAllKeys
		names := []string{"Blocked", "Deleted", "Redirect", "Tags"}
		if !quick {
			names = append(names, "Error", "DerivedFrom")
		}
		for _, n := range names {
			d.keys = append(d.keys, keyByName(d.all, n))
		}
		d.probe = keyByName(d.all, "Ident")
	}
	d.values = []string{"", "a", "b c"}
	for _, side := range []string{"addX", "addY"} {
		for ki, k := range d.keys {
			if k.flag {
				d.ops = append(d.ops, c19Op{side, ki, ""})
				continue
			}
			for _, v := range d.values {
				d.ops = append(d.ops, c19Op{side, ki, v})
			}
		}
	}
	d.ops = append(d.ops, c19Op{kind: "cloneXY"}, c19Op{kind: "cloneYX"}, c19Op{kind: "zeroX"}, c19Op{kind: "zeroY"})
	return d
}

// dump renders everything observable of a set through its accessors.
func (d *c19Dom) dump(x *attrVal) string {
	var sb strings.Builder
	for _, k := range d.all {
		if v, ok := x.get(k); ok {
			fmt.Fprintf(&sb, "%s=%q;", k.name, v)
		}
	}
	sb.WriteString("|" + x.str())
	return sb.String()
}

func (d *c19Dom) checkAgainstModel(who string, x *attrVal, m attrModel, fail func(string)) {
	for _, k := range d.all {
		v, ok := x.get(k)
		mv, mok := m[k.name]
		if ok != mok {
			fail(fmt.Sprintf("model: %s.GetAttr(%s) present=%v, model says %v", who, k.name, ok, mok))
			continue
		}
		if ok && !k.flag && v != mv {
			fail(fmt.Sprintf("model: %s.GetAttr(%s)=%q, model says %q", who, k.name, v, mv))
		}
		if x.has(k) != mok {
			fail(fmt.Sprintf("model: %s.HasAttr(%s)=%v, model says %v", who, k.name, x.has(k), mok))
		}
	}
	if x.regular() != (len(m) == 0) {
		fail(fmt.Sprintf("model: %s.IsRegular/Empty=%v but model has %d attributes", who, x.regular(), len(m)))
	}
}

// run replays a path on fresh variables and returns key + failures.
func (d *c19Dom) run(path []int, check bool) (string, []string) {
	X, Y := attrVal{isDep: d.isDep}, attrVal{isDep: d.isDep}
	mx, my := attrModel{}, attrModel{}
	setModel := func(m attrModel, k attrKey, v string) {
		if k.flag {
			m[k.name] = "\x00flag"
		} else {
			m[k.name] = v
		}
	}
	for _, oi := range path {
		o := d.ops[oi]
		switch o.kind {
		case "addX":
			X.add(d.keys[o.key], o.val)
			setModel(mx, d.keys[o.key], o.val)
		case "addY":
			Y.add(d.keys[o.key], o.val)
			setModel(my, d.keys[o.key], o.val)
		case "cloneXY":
			Y = X.clone()
			my = mx.clone()
		case "cloneYX":
			X = Y.clone()
			mx = my.clone()
		case "zeroX":
			X = attrVal{isDep: d.isDep}
			mx = attrModel{}
		case "zeroY":
			Y = attrVal{isDep: d.isDep}
			my = attrModel{}
		}
	}
	key := d.dump(&X) + "##" + d.dump(&Y)
	if !check {
		return key, nil
	}
	var bad []string
	fail := func(s string) { bad = append(bad, s) }
	d.checkAgainstModel("X", &X, mx, fail)
	d.checkAgainstModel("Y", &Y, my, fail)
	meq := mx.canon() == my.canon()
	if X.equal(&Y) != meq || Y.equal(&X) != meq {
		fail(fmt.Sprintf("equal: X.Equal(Y)=%v Y.Equal(X)=%v but the models are equal=%v", X.equal(&Y), Y.equal(&X), meq))
	}
	if d.isDep {
		c1, c2 := core.Sign(X.d.Compare(Y.d)), core.Sign(Y.d.Compare(X.d))
		if c1 != -c2 || (c1 == 0) != meq {
			fail(fmt.Sprintf("compare: X.Compare(Y)=%d Y.Compare(X)=%d, models equal=%v", c1, c2, meq))
		}
		if X.d.Compare(X.d) != 0 {
			fail("compare: X.Compare(X) != 0")
		}
	}
	// aliasing probe (destructive; the instance is thrown away): a write to one variable must not show in the other
	before := d.dump(&Y)
	X.add(d.probe, "probe")
	if d.dump(&Y) != before {
		fail("alias: a write to X changed Y")
	}
	Y.add(d.probe, "probe2")
	if v, _ := X.get(d.probe); v != "probe" {
		fail("alias: a write to Y changed X")
	}
	if len(d.keys) > 0 && !d.keys[0].flag {
		return key, bad
	}
	return key, bad
}

func (d *c19Dom) describe(path []int) string {
	var p []string
	for _, oi := range path {
		p = append(p, d.opString(d.ops[oi]))
	}
	return strings.Join(p, "; ")
}

// ---- E1 part: full product of single sets ----

// quoteIfNeeded writes a value in the documented schema syntax.
func quoteIfNeeded(v string) string {
	if v == "" || strings.ContainsAny(v, " \t\"`\\") {
		return strconv.Quote(v)
	}
	return v
}

type c19Set struct {
	assign map[string]string // key name -> value ("\x00flag" for flags)
	order  []string
}

func (d *c19Dom) build(s c19Set, reverse bool) attrVal {
	x := attrVal{isDep: d.isDep}
	ord := append([]string(nil), s.order...)
	if reverse {
		for i, j := 0, len(ord)-1; i < j; i, j = i+1, j-1 {
			ord[i], ord[j] = ord[j], ord[i]
		}
	}
	for _, n := range ord {
		k := keyByName(d.all, n)
		v := s.assign[n]
		if k.flag {
			v = ""
		}
		x.add(k, v)
	}
	return x
}

func (d *c19Dom) allSets(values []string, keyNames []string) []c19Set {
	sets := []c19Set{{assign: map[string]string{}}}
	for _, n := range keyNames {
		k := keyByName(d.all, n)
		var nxt []c19Set
		for _, s := range sets {
			nxt = append(nxt, s)
			opts := values
			if k.flag {
				opts = []string{"\x00flag"}
			} else if n == "Selector" {
				opts = []string{""} // a value-less key in the test syntax
			}
			for _, v := range opts {
				c := c19Set{assign: map[string]string{}, order: append(append([]string(nil), s.order...), n)}
				for a, b := range s.assign {
					c.assign[a] = b
				}
				c.assign[n] = v
				nxt = append(nxt, c)
			}
		}
		sets = nxt
	}
	return sets
}

// copyAdd: a set copied by plain assignment (the way dep.Type values are passed around) and then given, like its
// original, the addition K=V must end up, on both sides, holding s plus K=V. "" when it does.
func (d *c19Dom) copyAdd(s c19Set, kn, val string) string {
	k := keyByName(d.all, kn)
	x := d.build(s, false)
	y := x
	y.add(k, val)
	x.add(k, val)
	ws := c19Set{assign: map[string]string{}}
	for _, n := range s.order {
		if n != kn {
			ws.order = append(ws.order, n)
			ws.assign[n] = s.assign[n]
		}
	}
	ws.order = append(ws.order, kn)
	ws.assign[kn] = val
	want := d.build(ws, false)
	if !x.equal(&want) || x.str() != want.str() {
		return fmt.Sprintf("original after copy-by-assignment, copy.Add(%s,%q), original.Add(%s,%q) is %s, want %s", kn, val, kn, val, x.str(), want.str())
	}
	if !y.equal(&want) || y.str() != want.str() {
		return fmt.Sprintf("copy after copy-by-assignment, copy.Add(%s,%q), original.Add(%s,%q) is %s, want %s", kn, val, kn, val, y.str(), want.str())
	}
	return ""
}

func (s c19Set) witness() string {
	var parts []string
	for _, n := range s.order {
		parts = append(parts, n+"="+strconv.Quote(s.assign[n]))
	}
	return strings.Join(parts, ",")
}

func c19ParseSetWitness(w string) c19Set {
	s := c19Set{assign: map[string]string{}}
	if w == "" {
		return s
	}
	// values are Go-quoted; split on commas outside quotes
	var parts []string
	inq, esc, cur := false, false, ""
	for _, r := range w {
		switch {
		case esc:
			esc = false
		case r == '\\' && inq:
			esc = true
		case r == '"':
			inq = !inq
		case r == ',' && !inq:
			parts = append(parts, cur)
			cur = ""
			continue
		}
		cur += string(r)
	}
	parts = append(parts, cur)
	for _, p := range parts {
		n, qv, _ := strings.Cut(p, "=")
		v, _ := strconv.Unquote(qv)
		s.order = append(s.order, n)
		s.assign[n] = v
	}
	return s
}

// depText writes a dep.Type in the documented deptest syntax.
func (d *c19Dom) text(s c19Set) string {
	var items []string
	for _, n := range s.order {
		k := keyByName(d.all, n)
		if k.flag || (d.isDep && n == "Selector") {
			items = append(items, strings.ToLower(n))
			continue
		}
		items = append(items, strings.ToLower(n), quoteIfNeeded(s.assign[n]))
	}
	return strings.Join(items, " ")
}

// roundTrips checks the text round trips of one set; returns failures (clause-prefixed).
func (d *c19Dom) roundTrips(s c19Set) []string {
	var bad []string
	orig := d.build(s, false)
	if d.isDep {
		txt := d.text(s)
		got, err := resolve.VerifDepParseString(txt)
		if err != nil {
			bad = append(bad, fmt.Sprintf("rt-deptest: ParseString(%q): %v", txt, err))
		} else if !got.Equal(orig.d) {
			bad = append(bad, fmt.Sprintf("rt-deptest: ParseString(%q) = %s, want %s", txt, got, orig.d))
		}
		if !strings.Contains(txt, "|") && !strings.Contains(txt, "@") && !strings.Contains(txt, "#") {
			line := "q@1"
			if txt != "" {
				line = txt + "|q@1"
			}
			sc, err := schema.New("p\n\t1.0.0\n\t\t"+line+"\n", resolve.NPM)
			if err != nil {
				bad = append(bad, fmt.Sprintf("rt-schema: schema.New with import %q: %v", line, err))
			} else if len(sc.Packages) != 1 || len(sc.Packages[0].Versions) != 1 || len(sc.Packages[0].Versions[0].Requirements) != 1 {
				bad = append(bad, fmt.Sprintf("rt-schema: schema.New with import %q: unexpected shape", line))
			} else if got := sc.Packages[0].Versions[0].Requirements[0]; !got.Type.Equal(orig.d) || got.Name != "q" || got.Version != "1" {
				bad = append(bad, fmt.Sprintf("rt-schema: import %q parsed as %s %s@%s, want type %s", line, got.Type, got.Name, got.Version, orig.d))
			}
		}
		return bad
	}
	// version.AttrSet: the library's own writer
	txt := resolve.VerifVersionString(orig.v)
	got, err := resolve.VerifVersionParseString(txt)
	if err != nil {
		bad = append(bad, fmt.Sprintf("rt-versiontest: ParseString(String(%s)=%q): %v", orig.v, txt, err))
	} else if !got.Equal(orig.v) {
		bad = append(bad, fmt.Sprintf("rt-versiontest: ParseString(String(%s)=%q) = %s", orig.v, txt, got))
	}
	// schema document with ATTR lines in the documented syntax
	var sb strings.Builder
	sb.WriteString("p\n\t1.0.0\n")
	for _, n := range s.order {
		k := keyByName(d.all, n)
		if k.flag {
			sb.WriteString("\t\tATTR: " + strings.ToLower(n) + "\n")
		} else {
			sb.WriteString("\t\tATTR: " + strings.ToLower(n) + " " + strconv.Quote(s.assign[n]) + "\n")
		}
	}
	sc, err := schema.New(sb.String(), resolve.NPM)
	if err != nil {
		bad = append(bad, fmt.Sprintf("rt-schema: schema.New(%q): %v", sb.String(), err))
	} else if len(sc.Packages) != 1 || len(sc.Packages[0].Versions) != 1 {
		bad = append(bad, "rt-schema: unexpected shape")
	} else if got := sc.Packages[0].Versions[0].Attr; !got.Equal(orig.v) {
		bad = append(bad, fmt.Sprintf("rt-schema: ATTR lines %q parsed as %s, want %s", sb.String(), got, orig.v))
	}
	return bad
}

// C19 decides the attribute-set property.
func C19(tier string) {
	run := core.NewRun("C19", tier, c19Replay)
	quick := tier == "quick"
	if quick {
		run.SetBudget(90e9)
	} else {
		run.SetBudget(1500e9)
	}
	run.Cov["rule"] = "E2: BFS to closure over pairs (X,Y) of dep.Type and of version.AttrSet under add/set, clone (both directions) and reset; in every state both variables are compared with map models through every accessor, Equal/Compare against model equality, and a destructive aliasing probe; E1: full product of single sets (all key/value assignments of the alphabet) built in two insertion orders: Compare total order by ranking certificate, equality == model equality, text round trips (deptest syntax, schema document, versiontest.String); every single set copied by assignment, then copy and original given the same addition: both must hold it"
	var states, transitions int64
	per := map[string]any{}
	for _, isDep := range []bool{true, false} {
		d := c19Domain(isDep, quick)
		res := bfs.Search(bfs.Spec{
			NumOps: len(d.ops),
			Run: func(path []int, check bool) string {
				key, bad := d.run(path, check)
				for _, b := range bad {
					clause, _, _ := strings.Cut(b, ":")
					run.Fail(core.Join(append([]string{"hist", d.name, strconv.FormatBool(quick), clause}, pathStrings(path)...)...), b+"\n  history: "+d.describe(path))
				}
				return key
			},
			Stop: func() bool { return run.OutOfTime("C19 "+d.name+" BFS") || run.Violations() > 500 },
		})
		if !res.Closed {
			run.Cap(fmt.Sprintf("%s: search stopped at depth %d with %d states before closure", d.name, res.Depth, res.States))
		}
		states += int64(res.States)
		transitions += res.Transitions
		var deepest []int
		for _, p := range res.Paths {
			if len(p) > len(deepest) {
				deepest = p
			}
		}
		run.Sample(map[string]any{"type": d.name, "history": d.describe(deepest)})
		// E1 over single sets
		values := []string{"", "a", "b", "b c", `"q"`, "x  y", `x\" y`, `a " b`, "deleted", "dev"}
		var names []string
		if isDep {
			names = []string{"Dev", "Opt", "Test", "Scope", "KnownAs", "Selector"}
		} else {
			names = []string{"Blocked", "Deleted", "Redirect", "Tags", "DerivedFrom"}
		}
		if quick {
			values = []string{"", "a", "b c", `"q"`, "x  y", `x\" y`, `a " b`, "deleted", "dev"}
		}
		sets := d.allSets(values, names)
		vals := make([]attrVal, len(sets))
		canon := make([]string, len(sets))
		for i, s := range sets {
			vals[i] = d.build(s, false)
			m := attrModel{}
			for k, v := range s.assign {
				m[k] = v
			}
			canon[i] = m.canon()
			rev := d.build(s, true)
			if !rev.equal(&vals[i]) || rev.str() != vals[i].str() {
				run.Fail(core.Join("order", d.name, s.witness()), "the same attributes added in reverse order give a set that is not Equal or prints differently")
			}
			for _, b := range d.roundTrips(s) {
				clause, _, _ := strings.Cut(b, ":")
				run.Fail(core.Join("rt", d.name, clause, s.witness()), b)
			}
			run.Outcome(d.name + vals[i].str())
			for _, kn := range names {
				if k := keyByName(d.all, kn); k.flag || kn == "Selector" {
					continue
				}
				for _, v := range []string{"a", "b c"} {
					if msg := d.copyAdd(s, kn, v); msg != "" {
						run.Fail(core.Join("copyadd", d.name, kn, v, s.witness()), msg)
					}
					transitions++
				}
			}
		}
		transitions += int64(len(sets)) * 4
		n := len(sets)
		if isDep {
			m := make([][]int8, n)
			core.ParFor(n, func(i int) {
				row := make([]int8, n)
				for j := 0; j < n; j++ {
					row[j] = int8(core.Sign(vals[i].d.Compare(vals[j].d)))
				}
				m[i] = row
			})
			if bad := certificateMatrix(m); len(bad) > 0 {
				found := false
			scan:
				for i := 0; i < n; i++ {
					for j := 0; j < n; j++ {
						if m[i][j] > 0 {
							continue
						}
						for k := 0; k < n; k++ {
							if m[j][k] <= 0 && m[i][k] > 0 || m[i][j] != -m[j][i] {
								run.Fail(core.Join("order3", d.name, sets[i].witness(), sets[j].witness(), sets[k].witness()), "Compare is not a total preorder on this triple")
								found = true
								break scan
							}
						}
					}
				}
				if !found {
					core.Harness("C19: certificate failed but no violating triple found")
				}
			}
			for i := 0; i < n; i++ {
				for j := 0; j < n; j++ {
					if (m[i][j] == 0) != (canon[i] == canon[j]) {
						run.Fail(core.Join("eq", d.name, sets[i].witness(), sets[j].witness()), fmt.Sprintf("Compare=%d but same contents=%v", m[i][j], canon[i] == canon[j]))
					}
				}
			}
			transitions += int64(n) * int64(n)
			// the largest key a set supports (63): the key bitmask then uses its top bit. Every set of a prefix of the
			// product with and without it, all pairs, same laws.
			hi := dep.AttrKey(63)
			var ext []dep.Type
			var extCanon []string
			for i := 0; i < n && i < 120; i++ {
				a, b := vals[i].d.Clone(), vals[i].d.Clone()
				b.AddAttr(hi, "v")
				ext = append(ext, a, b)
				extCanon = append(extCanon, canon[i], canon[i]+"#63")
			}
			xm := make([][]int8, len(ext))
			for i := range ext {
				xm[i] = make([]int8, len(ext))
				for j := range ext {
					xm[i][j] = int8(core.Sign(ext[i].Compare(ext[j])))
				}
			}
			for i := range ext {
				for j := range ext {
					if xm[i][j] != -xm[j][i] || (xm[i][j] == 0) != (extCanon[i] == extCanon[j]) {
						run.Fail(core.Join("hikey", d.name, sets[i/2].witness(), strconv.Itoa(i%2), sets[j/2].witness(), strconv.Itoa(j%2)), fmt.Sprintf("with key 63: Compare(a,b)=%d Compare(b,a)=%d, same contents=%v", xm[i][j], xm[j][i], extCanon[i] == extCanon[j]))
					}
				}
			}
			if bad := certificateMatrix(xm); len(bad) > 0 {
			hscan:
				for i := range ext {
					for j := range ext {
						if xm[i][j] > 0 {
							continue
						}
						for k := range ext {
							if xm[j][k] <= 0 && xm[i][k] > 0 {
								run.Fail(core.Join("hikey3", d.name, sets[i/2].witness(), strconv.Itoa(i%2), sets[j/2].witness(), strconv.Itoa(j%2), sets[k/2].witness(), strconv.Itoa(k%2)), "with key 63: a <= b and b <= c but a > c")
								break hscan
							}
						}
					}
				}
			}
			transitions += int64(len(ext)) * int64(len(ext))
		} else {
			for i := 0; i < n; i++ {
				for j := 0; j < n; j++ {
					if vals[i].v.Equal(vals[j].v) != (canon[i] == canon[j]) {
						run.Fail(core.Join("eq", d.name, sets[i].witness(), sets[j].witness()), fmt.Sprintf("Equal=%v but same contents=%v", vals[i].v.Equal(vals[j].v), canon[i] == canon[j]))
					}
				}
			}
			transitions += int64(n) * int64(n)
		}
		states += int64(n)
		per[d.name] = map[string]any{"pair_states": res.States, "pair_transitions": res.Transitions, "max_depth": res.Depth, "closure_reached": res.Closed, "operations": len(d.ops), "single_sets": n, "set_pairs_compared": n * n}
	}
	run.Cov["states"] = states
	run.Cov["transitions"] = transitions
	run.Cov["traces_validated_against_impl"] = transitions
	run.Cov["evaluations"] = transitions
	run.Cov["distinct_nontrivial"] = states
	run.Cov["per_type"] = per
	run.Assumptions = []string{"keys/values of the alphabets in DESIGN C19; values avoid '|', '@' and '#', which the schema line syntax reserves"}
	run.Finish()
}

// certificateMatrix is the ranking certificate on a bare matrix.
func certificateMatrix(m [][]int8) [][2]int {
	n := len(m)
	idx := make([]int, n)
	for i := range idx {
		idx[i] = i
	}
	sort.SliceStable(idx, func(a, b int) bool { return m[idx[a]][idx[b]] < 0 })
	rank := make([]int, n)
	c := 0
	for k := 1; k < n; k++ {
		if m[idx[k-1]][idx[k]] != 0 {
			c++
		}
		rank[idx[k]] = c
	}
	var bad [][2]int
	for i := 0; i < n; i++ {
		for j := 0; j < n; j++ {
			if int(m[i][j]) != core.Sign(rank[i]-rank[j]) && len(bad) < 64 {
				bad = append(bad, [2]int{i, j})
			}
		}
	}
	return bad
}

func c19Replay(w string) (bool, string) {
	p := core.Split(w)
	isDep := p[1] == "dep.Type"
	switch p[0] {
	case "hist":
		quick, _ := strconv.ParseBool(p[2])
		d := c19Domain(isDep, quick)
		var path []int
		for _, s := range p[4:] {
			x, err := strconv.Atoi(s)
			if err != nil || x >= len(d.ops) {
				return true, "bad path"
			}
			path = append(path, x)
		}
		_, bad := d.run(path, true)
		var rel []string
		for _, b := range bad {
			if strings.HasPrefix(b, p[3]+":") {
				rel = append(rel, b)
			}
		}
		return len(rel) == 0, d.describe(path) + " => " + strings.Join(rel, "; ")
	case "rt":
		d := c19Domain(isDep, false)
		s := c19ParseSetWitness(p[3])
		var rel []string
		for _, b := range d.roundTrips(s) {
			if strings.HasPrefix(b, p[2]+":") {
				rel = append(rel, b)
			}
		}
		return len(rel) == 0, strings.Join(rel, "; ")
	case "hikey":
		d := c19Domain(isDep, false)
		mk := func(w, hi string) (dep.Type, string) {
			cs := c19ParseSetWitness(w)
			t := d.build(cs, false).d
			c := attrModel(cs.assign).canon()
			if hi == "1" {
				t.AddAttr(dep.AttrKey(63), "v")
				c += "#63"
			}
			return t, c
		}
		a, ca := mk(p[2], p[3])
		b, cb := mk(p[4], p[5])
		c1, c2 := core.Sign(a.Compare(b)), core.Sign(b.Compare(a))
		return c1 == -c2 && (c1 == 0) == (ca == cb), fmt.Sprintf("Compare=%d/%d same contents=%v", c1, c2, ca == cb)
	case "hikey3":
		d := c19Domain(isDep, false)
		var t [3]dep.Type
		for i := 0; i < 3; i++ {
			t[i] = d.build(c19ParseSetWitness(p[2+2*i]), false).d
			if p[3+2*i] == "1" {
				t[i].AddAttr(dep.AttrKey(63), "v")
			}
		}
		ab, bc, ac := core.Sign(t[0].Compare(t[1])), core.Sign(t[1].Compare(t[2])), core.Sign(t[0].Compare(t[2]))
		return !(ab <= 0 && bc <= 0 && ac > 0), fmt.Sprintf("cmp(a,b)=%d cmp(b,c)=%d cmp(a,c)=%d", ab, bc, ac)
	case "copyadd":
		d := c19Domain(isDep, false)
		msg := d.copyAdd(c19ParseSetWitness(p[4]), p[2], p[3])
		return msg == "", msg
	case "order":
		d := c19Domain(isDep, false)
		s := c19ParseSetWitness(p[2])
		a, b := d.build(s, false), d.build(s, true)
		return a.equal(&b) && a.str() == b.str(), a.str() + " vs " + b.str()
	case "order3":
		d := c19Domain(isDep, false)
		var v [3]attrVal
		for i := 0; i < 3; i++ {
			v[i] = d.build(c19ParseSetWitness(p[2+i]), false)
		}
		ok := true
		var m [3][3]int
		for i := 0; i < 3; i++ {
			for j := 0; j < 3; j++ {
				m[i][j] = core.Sign(v[i].d.Compare(v[j].d))
			}
		}
		for i := 0; i < 3; i++ {
			for j := 0; j < 3; j++ {
				if m[i][j] != -m[j][i] {
					ok = false
				}
				for k := 0; k < 3; k++ {
					if m[i][j] <= 0 && m[j][k] <= 0 && m[i][k] > 0 {
						ok = false
					}
				}
			}
		}
		return ok, fmt.Sprint(m)
	case "eq":
		d := c19Domain(isDep, false)
		s1, s2 := c19ParseSetWitness(p[2]), c19ParseSetWitness(p[3])
		a, b := d.build(s1, false), d.build(s2, false)
		m1, m2 := attrModel(s1.assign).canon(), attrModel(s2.assign).canon()
		if isDep {
			c1, c2 := core.Sign(a.d.Compare(b.d)), core.Sign(b.d.Compare(a.d))
			return c1 == -c2 && (c1 == 0) == (m1 == m2), fmt.Sprintf("Compare=%d/%d same contents=%v", c1, c2, m1 == m2)
		}
		return a.v.Equal(b.v) == (m1 == m2), fmt.Sprintf("Equal=%v same contents=%v", a.v.Equal(b.v), m1 == m2)
	}
	return true, "unknown"
}
