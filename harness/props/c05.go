package props

import (
	"bufio"
	"context"
	"fmt"
	"os"
	"os/exec"
	"runtime/debug"
	"sort"
	"strconv"
	"strings"
	"sync"
	"sync/atomic"
	"time"

	"deps.dev/util/resolve"
	mavenres "deps.dev/util/resolve/maven"
	npmres "deps.dev/util/resolve/npm"
	pypires "deps.dev/util/resolve/pypi"
	"verif/harness/core"
	"verif/harness/sched"
	"verif/harness/univ"
)

func init() {
	resolve.VerifSetSyncHooks(&resolve.VerifSyncHooks{
		Lock:   func(m *resolve.VerifMutex) bool { return sched.Lock(m) },
		Unlock: func(m *resolve.VerifMutex) bool { return sched.Unlock(m) },
	})
}

// yieldClient makes every client call a scheduling point.
type yieldClient struct{ c resolve.Client }

func (y yieldClient) Version(ctx context.Context, vk resolve.VersionKey) (resolve.Version, error) {
	sched.Yield("Version")
	return y.c.Version(ctx, vk)
}
func (y yieldClient) Versions(ctx context.Context, pk resolve.PackageKey) ([]resolve.Version, error) {
	sched.Yield("Versions")
	return y.c.Versions(ctx, pk)
}
func (y yieldClient) Requirements(ctx context.Context, vk resolve.VersionKey) ([]resolve.RequirementVersion, error) {
	sched.Yield("Requirements")
	return y.c.Requirements(ctx, vk)
}
func (y yieldClient) MatchingVersions(ctx context.Context, vk resolve.VersionKey) ([]resolve.Version, error) {
	sched.Yield("MatchingVersions")
	return y.c.MatchingVersions(ctx, vk)
}

func newResolver(sys string, c resolve.Client) resolve.Resolver {
	switch sys {
	case "NPM":
		return bounded(npmres.NewResolver(c))
	case "Maven":
		return bounded(mavenres.NewResolver(c))
	}
	return bounded(pypires.NewResolver(c))
}

// graphDump canonicalises and renders a resolution result (without Duration).
func graphDump(g *resolve.Graph, err error) string {
	if err != nil {
		return "ERR " + err.Error()
	}
	if g == nil {
		return "nil"
	}
	if cerr := g.Canon(); cerr != nil {
		return "CANON-ERR " + cerr.Error() + " | " + g.Error
	}
	var sb strings.Builder
	sb.WriteString(dumpGraphFull(g))
	return sb.String()
}

func dumpGraphFull(g *resolve.Graph) string {
	var sb strings.Builder
	for i, nd := range g.Nodes {
		fmt.Fprintf(&sb, "%d=%s@%s", i, nd.Version.Name, nd.Version.Version)
		for _, e := range nd.Errors {
			fmt.Fprintf(&sb, "!(%s@%s:%s)", e.Req.Name, e.Req.Version, e.Error)
		}
		sb.WriteString(" ")
	}
	sb.WriteString("| ")
	for _, e := range g.Edges {
		fmt.Fprintf(&sb, "%d>%d:%s:%s ", e.From, e.To, e.Requirement, e.Type.String())
	}
	if g.Error != "" {
		sb.WriteString("| E=" + g.Error)
	}
	return sb.String()
}

type c05Case struct {
	u     univ.Universe
	roots [][2]string // all versions
	hot   [][2]string // versions with requirements (interesting roots)
}

// c05Roots returns the roots used: every version that has requirements (hot), plus the designated root and one
// version without requirements (whose resolution is a single node).
func c05Roots(u univ.Universe) (all, hot [][2]string) {
	cold := false
	for i, v := range u.Vers {
		if len(v.Reqs) > 0 {
			hot = append(hot, [2]string{v.Pkg, v.Ver})
			all = append(all, [2]string{v.Pkg, v.Ver})
		} else if i == 0 || !cold {
			all = append(all, [2]string{v.Pkg, v.Ver})
			if i != 0 {
				cold = true
			}
		}
	}
	return
}

// c05Check runs the sequential clauses on one universe. Returns failures "clause: text".
func c05Check(u univ.Universe, withOrders bool) (fails []string, resolves int) {
	all, hot := c05Roots(u)
	reqKeys := u.AllReqKeys()
	ref := map[[2]string]string{}
	for _, r := range all {
		lc := u.Client(nil)
		g, err := newResolver(u.Sys, lc).Resolve(ctxBG, u.VK(r[0], r[1]))
		ref[r] = graphDump(g, err)
		resolves++
	}
	fail := func(s string) { fails = append(fails, s) }
	// repeatability + no-write on one client/resolver, every root twice in sequence
	for _, r := range all {
		lc := u.Client(nil)
		res := newResolver(u.Sys, lc)
		before := univ.Snapshot(lc, u, reqKeys)
		for k := 0; k < 2; k++ {
			g, err := res.Resolve(ctxBG, u.VK(r[0], r[1]))
			resolves++
			if d := graphDump(g, err); d != ref[r] {
				fail(fmt.Sprintf("repeat: Resolve(%s@%s) call %d on the same client/resolver gives %s, fresh gives %s", r[0], r[1], k+1, d, ref[r]))
			}
			if after := univ.Snapshot(lc, u, reqKeys); after != before {
				fail(fmt.Sprintf("nowrite: Resolve(%s@%s) changed what the client reports:\n--- before\n%s--- after\n%s", r[0], r[1], before, after))
				before = after
			}
		}
	}
	// histories: every ordered pair of roots, every triple of interesting roots, on one client/resolver
	seqs := [][][2]string{}
	for _, a := range all {
		for _, b := range all {
			if len(u.MustFind(a).Reqs) == 0 {
				continue // a resolution without requirements performs no client call that could matter
			}
			seqs = append(seqs, [][2]string{a, b})
		}
	}
	if len(hot) <= 3 {
		for _, a := range hot {
			for _, b := range hot {
				for _, c := range hot {
					seqs = append(seqs, [][2]string{a, b, c})
				}
			}
		}
	}
	for _, seq := range seqs {
		lc := u.Client(nil)
		res := newResolver(u.Sys, lc)
		for i, r := range seq {
			g, err := res.Resolve(ctxBG, u.VK(r[0], r[1]))
			resolves++
			if d := graphDump(g, err); d != ref[r] {
				fail(fmt.Sprintf("history: after %v, Resolve(%s@%s) gives %s, fresh gives %s", seq[:i], r[0], r[1], d, ref[r]))
				break
			}
		}
	}
	// a second resolver on a client another resolver has used
	for _, a := range hot {
		lc := u.Client(nil)
		newResolver(u.Sys, lc).Resolve(ctxBG, u.VK(a[0], a[1]))
		for _, b := range hot {
			g, err := newResolver(u.Sys, lc).Resolve(ctxBG, u.VK(b[0], b[1]))
			resolves++
			if d := graphDump(g, err); d != ref[b] {
				fail(fmt.Sprintf("history: new resolver on a client used for Resolve(%s@%s): Resolve(%s@%s) gives %s, fresh gives %s", a[0], a[1], b[0], b[1], d, ref[b]))
			}
		}
	}
	// insertion orders
	if withOrders {
		n := len(u.Vers)
		var orders [][]int
		ident := make([]int, n)
		for i := range ident {
			ident[i] = i
		}
		rev := make([]int, n)
		for i := range rev {
			rev[i] = n - 1 - i
		}
		orders = append(orders, rev)
		for i := 0; i+1 < n; i++ {
			o := append([]int(nil), ident...)
			o[i], o[i+1] = o[i+1], o[i]
			orders = append(orders, o)
		}
		rot := append(append([]int(nil), ident[n/2:]...), ident[:n/2]...)
		orders = append(orders, rot)
		for _, o := range orders {
			lc := u.Client(o)
			res := newResolver(u.Sys, lc)
			for _, r := range hot {
				g, err := res.Resolve(ctxBG, u.VK(r[0], r[1]))
				resolves++
				if d := graphDump(g, err); d != ref[r] {
					fail(fmt.Sprintf("order: with insertion order %v Resolve(%s@%s) gives %s, base order gives %s", o, r[0], r[1], d, ref[r]))
					break
				}
			}
		}
	}
	return fails, resolves
}

// c05Schedules explores all interleavings (preemption bound) of threads resolving roots on a shared client.
func c05Schedules(u univ.Universe, roots [][2]string, bound int, stop func() bool) (fails []string, st sched.Stats, outcomes map[string]bool) {
	return c05SchedulesW(u, roots, bound, false, stop)
}

// c05SchedulesW: with warm, one Resolve of the first root is completed on the shared client/resolver before the
// threads start (a history followed by concurrency: state left behind by an earlier call is then shared).
func c05SchedulesW(u univ.Universe, roots [][2]string, bound int, warm bool, stop func() bool) (fails []string, st sched.Stats, outcomes map[string]bool) {
	ref := make([]string, len(roots))
	for i, r := range roots {
		lc := u.Client(nil)
		g, err := newResolver(u.Sys, lc).Resolve(ctxBG, u.VK(r[0], r[1]))
		ref[i] = graphDump(g, err)
	}
	reqKeys := u.AllReqKeys()
	outcomes = map[string]bool{}
	seenFail := map[string]bool{}
	st = sched.ExploreCapped(bound, 150, func() ([]func(), func(e *sched.Exec)) {
		lc := u.Client(nil)
		before := univ.Snapshot(lc, u, reqKeys)
		yc := yieldClient{lc}
		var shared resolve.Resolver
		if u.Sys != "PyPI" {
			shared = newResolver(u.Sys, yc)
		}
		if warm {
			wr := shared
			if wr == nil {
				wr = newResolver(u.Sys, yc)
			}
			wr.Resolve(ctxBG, u.VK(roots[0][0], roots[0][1]))
		}
		results := make([]string, len(roots))
		bodies := make([]func(), len(roots))
		for i, r := range roots {
			i, r := i, r
			bodies[i] = func() {
				res := shared
				if res == nil {
					res = newResolver(u.Sys, yc) // PyPI: one resolver per goroutine
				}
				g, err := res.Resolve(ctxBG, u.VK(r[0], r[1]))
				results[i] = graphDump(g, err)
			}
		}
		return bodies, func(e *sched.Exec) {
			sc := intsToString(e.Schedule())
			add := func(clause, msg string) {
				if !seenFail[clause] {
					seenFail[clause] = true
					fails = append(fails, clause+": "+msg+"\n  schedule (thread ids): "+sc+"\n  choices: "+intsToString(e.Choices()))
				}
			}
			if e.Diverged != "" {
				core.Harness("C05 scheduler diverged while replaying a prefix: %s", e.Diverged)
			}
			if e.Deadlock {
				add("deadlock", "no enabled thread before all finished")
				return
			}
			for i := range roots {
				if results[i] != ref[i] {
					add("concurrent", fmt.Sprintf("thread %d Resolve(%s@%s) gives %s, sequential reference %s", i, roots[i][0], roots[i][1], results[i], ref[i]))
				}
			}
			if after := univ.Snapshot(lc, u, reqKeys); after != before {
				add("nowrite", "client state changed by concurrent resolutions")
			}
			outcomes[strings.Join(results, "##")] = true
		}
	}, stop)
	return
}

func intsToString(a []int) string {
	s := make([]string, len(a))
	for i, x := range a {
		s[i] = strconv.Itoa(x)
	}
	return strings.Join(s, ",")
}

// C05 decides the purity property.
func C05(tier string) {
	run := core.NewRun("C05", tier, c05Replay)
	quick := tier == "quick"
	debug.SetGCPercent(800) // each fresh PyPI resolver allocates 30 000 cache slots; collect less often
	seqDev, schedDev, bound := 2, 2, 2
	if quick {
		run.SetBudget(240 * time.Second)
	} else {
		seqDev, schedDev, bound = 3, 2, 3
		run.SetBudget(2400 * time.Second)
	}
	run.Cov["rule"] = "universes = all deviation sets (requirement slots over a requirement alphabet + decorations) up to the bound from the npm/Maven/PyPI bases of DESIGN §6.6; per universe: every version as root resolved on a fresh client (reference), twice on one client/resolver, every ordered pair of roots and every triple of roots-with-requirements as a history on one client/resolver, a second resolver on a used client, insertion orders (reversal, every adjacent transposition, rotation); byte-exact snapshot of everything the client reports before/after every Resolve; E3: all interleavings with <= bound preemptions (scenarios whose default schedule exceeds 150 scheduling points run that schedule only and are counted) of 2 threads (quick) resolving roots on one shared client (scheduling point at every client call; npm/Maven share one resolver, PyPI one per thread)"
	var universes, resolves, schedules, points, nontrivial int64
	type e3Result struct {
		s0, p0, scen, deadlocks, outcomes, tooLarge int64
		complete                                    bool
	}
	e3ch := map[string]chan e3Result{}
	for _, sp := range univ.AllSpaces() {
		sp := sp
		ch := make(chan e3Result, 1)
		e3ch[sp.Name+"/"+sp.Base] = ch
		go func() {
			// E3: schedule exploration, sharded over worker processes (the controlled scheduler is process-global)
			var s0, p0, scen, deadlocks, outcomeCount, tooLarge int64
			complete := true
			{
				self, _ := os.Executable()
				nsh := 4
				type shardOut struct {
					lines []string
					err   error
				}
				outs := make([]shardOut, nsh)
				var wg sync.WaitGroup
				for sh := 0; sh < nsh; sh++ {
					wg.Add(1)
					go func(sh int) {
						defer wg.Done()
						remaining := time.Until(run.Deadline())
						if remaining < 5*time.Second {
							remaining = 5 * time.Second
						}
						cmd := exec.Command(self, "C05", "--sched", sp.Name+"/"+sp.Base, strconv.Itoa(schedDevFor(sp, quick, schedDev)), strconv.Itoa(boundFor(sp.Name, quick, bound)), strconv.FormatBool(quick), strconv.Itoa(sh), strconv.Itoa(nsh), strconv.FormatInt(int64(remaining/time.Second), 10))
						cmd.Env = append(os.Environ(), "GOMAXPROCS=2")
						b, err := cmd.Output()
						outs[sh] = shardOut{strings.Split(string(b), "\n"), err}
					}(sh)
				}
				wg.Wait()
				for sh, o := range outs {
					done := false
					for _, line := range o.lines {
						f := strings.SplitN(line, "\t", 3)
						switch f[0] {
						case "F":
							w, _ := strconv.Unquote(f[1])
							d, _ := strconv.Unquote(f[2])
							run.Fail(w, d)
						case "S":
							var a [7]int64
							fmt.Sscanf(f[1], "%d %d %d %d %d %d %d", &a[0], &a[1], &a[2], &a[3], &a[4], &a[5], &a[6])
							tooLarge += a[6]
							scen += a[0]
							s0 += a[1]
							p0 += a[2]
							deadlocks += a[3]
							outcomeCount += a[4]
							if a[5] == 0 {
								complete = false
							}
							done = true
						case "H":
							core.Harness("C05 schedule worker: %s", line)
						}
					}
					if !done {
						core.Harness("C05 schedule worker %d/%d for %s ended without a summary: %v", sh, nsh, sp.Name, o.err)
					}
				}
			}
			ch <- e3Result{s0, p0, scen, deadlocks, outcomeCount, tooLarge, complete}
		}()
	}
	per := map[string]any{}
	for _, sp := range univ.AllSpaces() {
		var batch []univ.Universe
		var sampleU univ.Universe
		var u0, r0, nt0 int64
		flush := func() {
			core.ParFor(len(batch), func(i int) {
				fails, n := c05Check(batch[i], true)
				atomic.AddInt64(&r0, int64(n))
				for _, f := range fails {
					clause, _, _ := strings.Cut(f, ":")
					run.Fail(core.Join("seq", clause, batch[i].Encode()), f)
				}
			})
			batch = batch[:0]
		}
		stopped := false
		sd := seqDev
		if sp.Base != "empty" {
			sd-- // a template already carries five requirements
		}
		if sp.Base == "nested-excl" && quick {
			sd = 0 // the template itself is the history of interest; its neighbourhood is explored in thorough
		}
		univ.Enumerate(sp.Slots, sd, func(picks []univ.Pick) {
			if stopped {
				return
			}
			u, ok := sp.Build(picks)
			if !ok {
				return
			}
			u0++
			if len(picks) > 0 {
				nt0++
			}
			if len(picks) == 2 && len(u.Vers[0].Reqs) > 0 && u0%97 == 0 {
				sampleU = u
			}
			batch = append(batch, u)
			if len(batch) >= 4096 {
				flush()
				if run.OutOfTime("C05 "+sp.Name+"/"+sp.Base+" sequential") || run.Violations() > 300 {
					stopped = true
				}
			}
		})
		flush()
		universes += u0
		resolves += r0
		nontrivial += nt0
		e3 := <-e3ch[sp.Name+"/"+sp.Base]
		s0, p0, scen, deadlocks, outcomeCount, tooLarge, complete := e3.s0, e3.p0, e3.scen, e3.deadlocks, e3.outcomes, e3.tooLarge, e3.complete
		schedules += s0
		points += p0
		per[sp.Name+"/"+sp.Base] = map[string]any{"universes": u0, "resolves": r0, "sequential_completed": !stopped, "schedule_scenarios": scen, "schedules": s0, "scheduling_points": p0,
			"preemption_bound": boundFor(sp.Name, quick, bound), "schedule_universe_deviations": schedDevFor(sp, quick, schedDev), "sequential_universe_deviations": sd, "schedule_exploration_complete": complete, "distinct_interleaving_outcomes": outcomeCount, "deadlocks": deadlocks, "scenarios_over_150_points_default_schedule_only": tooLarge}
		if !complete || stopped {
			run.Cap(sp.Name + "/" + sp.Base + ": not all universes/schedules within the bound were explored in the time budget")
		}
		run.Outcome(fmt.Sprintf("%s/%s:%d", sp.Name, sp.Base, u0))
		if len(sampleU.Vers) > 0 {
			run.Sample(map[string]any{"system": sp.Name, "base": sp.Base, "universe": sampleU})
		}
	}
	// npm universes with bundled versions (derived packages), built by the C18 model from its service contents: the
	// resolver's bundle paths read and clone client-owned requirement types
	{
		slots, build := c18Space()
		bdev := 3
		if quick {
			bdev = 2
		}
		var batch []univ.Universe
		univ.Enumerate(slots, bdev, func(picks []univ.Pick) {
			if s, ok := build(picks); ok {
				batch = append(batch, c18Model(s))
			}
		})
		var r0 int64
		core.ParFor(len(batch), func(i int) {
			fails, n := c05Check(batch[i], true)
			atomic.AddInt64(&r0, int64(n))
			for _, f := range fails {
				clause, _, _ := strings.Cut(f, ":")
				run.Fail(core.Join("seq", clause, batch[i].Encode()), f)
			}
		})
		universes += int64(len(batch))
		resolves += r0
		per["NPM/bundles"] = map[string]any{"universes": len(batch), "resolves": r0, "sequential_universe_deviations": bdev, "note": "sequential clauses only (histories, insertion orders, no-write snapshots)"}
	}
	run.Cov["states"] = universes
	run.Cov["transitions"] = resolves + points
	run.Cov["traces_validated_against_impl"] = schedules
	run.Cov["evaluations"] = resolves
	run.Cov["distinct_nontrivial"] = nontrivial
	run.Cov["schedules"] = schedules
	run.Cov["per_system"] = per
	run.Cov["non_terminating_resolutions"] = resolveCutReport()
	run.Cov["explanation"] = "states = universes; transitions = Resolve calls + scheduling points; schedules are executed on the real resolvers and client under the controlled scheduler"
	run.Assumptions = []string{"memory-level interleavings between scheduling points are excluded by the no-write invariant (DESIGN §3.4): a resolver that does not write client-owned memory cannot race on it", "universes beyond the deviation bound and more than 2-3 concurrent resolutions are not covered"}
	runRacePass(run, "C05", tier)
	run.Finish()
}

// schedDevFor / boundFor: per-system E3 bounds. PyPI builds two resolvers (2.5 ms each) per schedule, Maven makes
// several hundred client calls per resolution; their quick tier is smaller.
func schedDevFor(sp *univ.Space, quick bool, def int) int {
	if sp.Base != "empty" {
		def-- // a template already carries five requirements
	}
	if sp.Base == "nested-excl" && quick {
		return 0
	}
	if quick && sp.Name == "PyPI" {
		if sp.Base != "empty" {
			return 0
		}
		return 1
	}
	return def
}

func boundFor(sys string, quick bool, def int) int {
	if quick {
		return 1
	}
	if sys != "NPM" && def > 2 {
		return 2
	}
	return def
}

func rootsString(r [][2]string) string {
	s := make([]string, len(r))
	for i, x := range r {
		s[i] = x[0] + "@" + x[1]
	}
	return strings.Join(s, ";")
}

func c05Replay(w string) (bool, string) {
	p := core.Split(w)
	switch p[0] {
	case "race":
		return raceReplay(p[1], p[2])
	case "seq":
		u, err := univ.Decode(p[2])
		if err != nil {
			return true, "bad universe"
		}
		fails, _ := c05Check(u, true)
		var rel []string
		for _, f := range fails {
			if strings.HasPrefix(f, p[1]+":") {
				rel = append(rel, f)
			}
		}
		sort.Strings(rel)
		return len(rel) == 0, strings.Join(rel, "\n")
	case "sched":
		u, err := univ.Decode(p[4])
		if err != nil {
			return true, "bad universe"
		}
		b, _ := strconv.Atoi(p[2])
		var roots [][2]string
		for _, r := range strings.Split(p[3], ";") {
			n, v, _ := strings.Cut(r, "@")
			roots = append(roots, [2]string{n, v})
		}
		warm := len(p) > 5 && p[5] == "true"
		fails, _, _ := c05SchedulesW(u, roots, b, warm, nil)
		var rel []string
		for _, f := range fails {
			if strings.HasPrefix(f, p[1]+":") {
				rel = append(rel, f)
			}
		}
		return len(rel) == 0, strings.Join(rel, "\n")
	}
	return true, "unknown"
}

// C05SchedProbe runs one schedule exploration (development aid).
func C05SchedProbe(u univ.Universe, bound int) sched.Stats {
	_, hot := c05Roots(u)
	_, st, _ := c05Schedules(u, [][2]string{hot[0], hot[0]}, bound, nil)
	return st
}

// C05SchedWorker explores the schedules of one shard of the E3 scenarios. argv: system dev bound quick shard nshards seconds
func C05SchedWorker(argv []string) {
	sysName := argv[0]
	dev, _ := strconv.Atoi(argv[1])
	bound, _ := strconv.Atoi(argv[2])
	quick, _ := strconv.ParseBool(argv[3])
	shard, _ := strconv.Atoi(argv[4])
	nsh, _ := strconv.Atoi(argv[5])
	secs, _ := strconv.Atoi(argv[6])
	deadline := time.Now().Add(time.Duration(secs) * time.Second)
	var sp *univ.Space
	for _, x := range univ.AllSpaces() {
		if x.Name+"/"+x.Base == sysName {
			sp = x
		}
	}
	if sp == nil {
		fmt.Println("H\tunknown system")
		return
	}
	out := bufio.NewWriter(os.Stdout)
	defer out.Flush()
	var scen, s0, p0, deadlocks, outcomes, tooLarge int64
	complete := int64(1)
	idx := 0
	nfail := 0
	univ.Enumerate(sp.Slots, dev, func(picks []univ.Pick) {
		u, ok := sp.Build(picks)
		if !ok || len(u.Vers[0].Reqs) == 0 {
			return
		}
		idx++
		if idx%nsh != shard || nfail > 50 {
			return
		}
		if time.Now().After(deadline) {
			complete = 0
			return
		}
		_, hot := c05Roots(u)
		rootSets := [][][2]string{{hot[0], hot[0]}}
		if len(hot) > 1 {
			rootSets = append(rootSets, [][2]string{hot[0], hot[1]})
		}
		if !quick && len(hot) > 1 {
			rootSets = append(rootSets, [][2]string{hot[0], hot[1], hot[0]})
		}
		for _, roots := range rootSets {
			b := bound
			if len(roots) == 3 && b > 2 {
				b = 2
			}
			for _, warm := range []bool{false, true} {
				fails, st, outs := c05SchedulesW(u, roots, b, warm, func() bool { return time.Now().After(deadline) })
				scen++
				s0 += st.Schedules
				p0 += st.Points
				deadlocks += st.Deadlocks
				outcomes += int64(len(outs))
				if !st.Complete {
					complete = 0
				}
				if st.TooLarge {
					tooLarge++
				}
				for _, f := range fails {
					clause, _, _ := strings.Cut(f, ":")
					nfail++
					fmt.Fprintf(out, "F\t%s\t%s\n", strconv.Quote(core.Join("sched", clause, strconv.Itoa(b), rootsString(roots), u.Encode(), strconv.FormatBool(warm))), strconv.Quote(f))
				}
			}
		}
	})
	fmt.Fprintf(out, "S\t%d %d %d %d %d %d %d\n", scen, s0, p0, deadlocks, outcomes, complete, tooLarge)
}
