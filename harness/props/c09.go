package props

import (
	"fmt"
	"sort"
	"strings"
	"sync/atomic"

	"deps.dev/util/semver"
	"verif/harness/core"
	"verif/harness/dom"
)

var c09Systems = []semver.System{semver.DefaultSystem, semver.NPM, semver.Cargo, semver.Go}

// setDomain is a parsed constraint domain plus the pool of boundary versions.
type setDomain struct {
	sys   semver.System
	cstr  []string
	cons  []*semver.Constraint
	pool  []string
	pver  []*semver.Version
	isPre []bool
	near  [][]int  // per constraint: pool indices near its own bounds
	norm  [][]bool // Set.MatchVersion
	incl  [][]bool // MatchVersionPrerelease
}

func buildSetDomain(sys semver.System, level int, extra ...string) (*setDomain, int) {
	d := &setDomain{sys: sys}
	rejected := 0
	for _, s := range append(dom.SetConstraints(sys, level), extra...) {
		c, err := sys.ParseConstraint(s)
		if err != nil {
			rejected++
			continue
		}
		d.cstr = append(d.cstr, s)
		d.cons = append(d.cons, c)
	}
	poolIdx := map[string]int{}
	addPool := func(v string) int {
		if i, ok := poolIdx[v]; ok {
			return i
		}
		pv, err := sys.Parse(v)
		if err != nil || pv.IsWildcard() {
			return -1
		}
		poolIdx[v] = len(d.pool)
		d.pool = append(d.pool, v)
		d.pver = append(d.pver, pv)
		d.isPre = append(d.isPre, pv.IsPrerelease())
		return len(d.pool) - 1
	}
	global := []string{"0.0.0-0", "0.0.0", "0.0.1", "999999.999999.999999", "1000000.0.0"}
	var gl []int
	for _, g := range global {
		if sys == semver.Go {
			g = "v" + g
		}
		if i := addPool(g); i >= 0 {
			gl = append(gl, i)
		}
	}
	d.near = make([][]int, len(d.cons))
	for ci, c := range d.cons {
		seen := map[int]bool{}
		for _, g := range gl {
			seen[g] = true
		}
		for _, b := range dom.SetStringBounds(c.Set().String()) {
			for _, nb := range dom.BoundNeighbours(sys, b) {
				if i := addPool(nb); i >= 0 {
					seen[i] = true
				}
			}
		}
		for i := range seen {
			d.near[ci] = append(d.near[ci], i)
		}
		sort.Ints(d.near[ci])
	}
	d.norm = make([][]bool, len(d.cons))
	d.incl = make([][]bool, len(d.cons))
	core.ParFor(len(d.cons), func(ci int) {
		c := d.cons[ci]
		set := c.Set()
		n := make([]bool, len(d.pool))
		in := make([]bool, len(d.pool))
		for vi, v := range d.pver {
			n[vi] = set.MatchVersion(v)
			in[vi] = c.MatchVersionPrerelease(v)
		}
		d.norm[ci], d.incl[ci] = n, in
	})
	return d, rejected
}

func mergeSorted(a, b []int) []int {
	out := make([]int, 0, len(a)+len(b))
	i, j := 0, 0
	for i < len(a) || j < len(b) {
		switch {
		case j >= len(b) || (i < len(a) && a[i] < b[j]):
			out = append(out, a[i])
			i++
		case i >= len(a) || b[j] < a[i]:
			out = append(out, b[j])
			j++
		default:
			out = append(out, a[i])
			i++
			j++
		}
	}
	return out
}

// c09Pair evaluates all laws for one ordered pair of constraint strings on the
// given versions (all fresh parses) and returns the failures as text.
type c09Fail struct{ clause, version, text string }

func c09Pair(sys semver.System, a, b string, versions []string) []c09Fail {
	var fails []c09Fail
	cur := ""
	add := func(text string) {
		clause := text
		if i := strings.IndexByte(text, ':'); i >= 0 {
			clause = text[:i]
		}
		fails = append(fails, c09Fail{clause, cur, text})
	}
	parse := func(s string) *semver.Constraint {
		c, err := sys.ParseConstraint(s)
		if err != nil {
			return nil
		}
		return c
	}
	ca, cb := parse(a), parse(b)
	if ca == nil || cb == nil {
		return nil
	}
	sa0, sb0 := ca.Set().String(), cb.Set().String()
	u := ca.Set()
	errU := u.Union(cb.Set())
	// fresh operands for the intersection so that an in-place effect of Union cannot hide or cause anything
	ca2, cb2 := parse(a), parse(b)
	in := ca2.Set()
	errI := in.Intersect(cb2.Set())
	// reversed operand order
	ca3, cb3 := parse(a), parse(b)
	ur := cb3.Set()
	errUR := ur.Union(ca3.Set())
	ca4, cb4 := parse(a), parse(b)
	ir := cb4.Set()
	errIR := ir.Intersect(ca4.Set())
	// reference operands, never used in an operation
	ra, rb := parse(a), parse(b)
	if errU != nil || errUR != nil {
		// an operation that reports an error has not produced a wrong set; the property is about returned sets
		u, ur = semver.Set{}, semver.Set{}
	}
	var inclI, inclIR *semver.Constraint
	if errI == nil {
		if c, err := sys.ParseSetConstraint(in.String()); err == nil {
			inclI = c
		} else {
			add(fmt.Sprintf("intersection %s does not parse back: %v", in.String(), err))
		}
	}
	if errIR == nil {
		if c, err := sys.ParseSetConstraint(ir.String()); err == nil {
			inclIR = c
		}
	}
	for _, vs := range versions {
		v, err := sys.Parse(vs)
		if err != nil || v.IsWildcard() {
			continue
		}
		cur = vs
		ma, mb := ra.Set().MatchVersion(v), rb.Set().MatchVersion(v)
		if errU == nil && errUR == nil {
			if got := u.MatchVersion(v); got != (ma || mb) {
				add(fmt.Sprintf("union: %s in A=%v in B=%v in A∪B=%v (A∪B=%s)", vs, ma, mb, got, u.String()))
			}
			if got := ur.MatchVersion(v); got != (ma || mb) {
				add(fmt.Sprintf("union reversed: %s in A=%v in B=%v in B∪A=%v (B∪A=%s)", vs, ma, mb, got, ur.String()))
			}
		}
		if errI == nil {
			got := in.MatchVersion(v)
			g := false
			if !v.IsPrerelease() && got != (ma && mb) {
				add(fmt.Sprintf("intersection: release %s in A=%v in B=%v in A∩B=%v (A∩B=%s)", vs, ma, mb, got, in.String()))
			}
			if in.Empty() && got {
				add(fmt.Sprintf("empty: A∩B reports Empty but matches %s", vs))
			}
			if inclI != nil {
				pa, pb := ra.MatchVersionPrerelease(v), rb.MatchVersionPrerelease(v)
				if g = inclI.MatchVersionPrerelease(v); g != (pa && pb) {
					add(fmt.Sprintf("intersection (prerelease-inclusive): %s in A=%v in B=%v in A∩B=%v (A∩B=%s)", vs, pa, pb, g, in.String()))
				}
				if in.Empty() && g {
					add(fmt.Sprintf("empty: A∩B reports Empty but matches %s under prerelease-inclusive matching", vs))
				}
			}
		}
		if errIR == nil {
			got := ir.MatchVersion(v)
			if !v.IsPrerelease() && got != (ma && mb) {
				add(fmt.Sprintf("intersection reversed: release %s in A=%v in B=%v in B∩A=%v (B∩A=%s)", vs, ma, mb, got, ir.String()))
			}
			if inclIR != nil {
				pa, pb := ra.MatchVersionPrerelease(v), rb.MatchVersionPrerelease(v)
				if g := inclIR.MatchVersionPrerelease(v); g != (pa && pb) {
					add(fmt.Sprintf("intersection reversed (prerelease-inclusive): %s in A=%v in B=%v in B∩A=%v (B∩A=%s)", vs, pa, pb, g, ir.String()))
				}
			}
		}
		if errU == nil && u.Empty() && u.MatchVersion(v) {
			add(fmt.Sprintf("empty: A∪B reports Empty but matches %s", vs))
		}
	}
	cur = ""
	if (errI == nil) != (errIR == nil) {
		add(fmt.Sprintf("intersection fails in one operand order only: A∩B err=%v, B∩A err=%v", errI, errIR))
	}
	if (errU == nil) != (errUR == nil) {
		add(fmt.Sprintf("union fails in one operand order only: A∪B err=%v, B∪A err=%v", errU, errUR))
	}
	// operands must be unaffected by having been used (purity of the operand constraints)
	if s := ca.Set().String(); s != sa0 {
		add(fmt.Sprintf("operand A changed by Union: %s -> %s", sa0, s))
	}
	if s := cb.Set().String(); s != sb0 {
		add(fmt.Sprintf("operand B changed by Union: %s -> %s", sb0, s))
	}
	if s := ca2.Set().String(); s != sa0 {
		add(fmt.Sprintf("operand A changed by Intersect: %s -> %s", sa0, s))
	}
	if s := cb2.Set().String(); s != sb0 {
		add(fmt.Sprintf("operand B changed by Intersect: %s -> %s", sb0, s))
	}
	return fails
}

// C09 decides the set-algebra property.
func C09(tier string) {
	run := core.NewRun("C09", tier, c09Replay)
	level := 1
	if tier == "quick" {
		level = 0
	}
	run.Cov["rule"] = "per system (Default, NPM, Cargo, Go): all ordered pairs (A,B) of the §6.5 set-algebra constraint domain; A∪B, A∩B, B∪A, B∩A computed on fresh parses; membership compared with A's and B's own on every boundary-neighbour version of both operands (+ global extremes), under normal matching and (for ∩) prerelease-inclusive matching; Empty(); operand purity. A pair is non-trivial when A and B have different set strings and neither is empty."
	var states, transitions, nontrivial, evals int64
	perSys := map[string]any{}
	for _, sys := range c09Systems {
		d, rejected := buildSetDomain(sys, level)
		n := len(d.cons)
		if n < 20 {
			core.Harness("C09 %v: constraint domain collapsed (%d)", sys, n)
		}
		setStr := make([]string, n)
		for i, c := range d.cons {
			setStr[i] = c.Set().String()
			run.Outcome(sys.String() + setStr[i])
		}
		var nt, ev, failedPairs int64
		core.ParFor(n*n, func(k int) {
			if run.OutOfTime("C09 pair loop") {
				return
			}
			i, j := k/n, k%n
			vi := mergeSorted(d.near[i], d.near[j])
			vs := make([]string, len(vi))
			for x, p := range vi {
				vs[x] = d.pool[p]
			}
			fails := c09Pair(sys, d.cstr[i], d.cstr[j], vs)
			atomic.AddInt64(&ev, int64(len(vs)))
			if setStr[i] != setStr[j] && !d.cons[i].Set().Empty() && !d.cons[j].Set().Empty() {
				atomic.AddInt64(&nt, 1)
			}
			if len(fails) > 0 {
				atomic.AddInt64(&failedPairs, 1)
				for _, f := range fails {
					run.Fail(core.Join("pair", sys.String(), d.cstr[i], d.cstr[j], f.clause, f.version), f.text)
				}
			}
		})
		// span-order invariance inside one operand: OR-alternatives in different order give the same set
		orderGroups := map[string][]int{}
		for i, s := range d.cstr {
			if strings.Contains(s, "||") {
				alts := strings.Split(s, "||")
				for k := range alts {
					alts[k] = strings.TrimSpace(alts[k])
				}
				sort.Strings(alts)
				key := strings.Join(alts, "||")
				orderGroups[key] = append(orderGroups[key], i)
			}
		}
		orderPairs := 0
		for _, g := range orderGroups {
			for _, i := range g[1:] {
				orderPairs++
				if !equalBools(d.norm[g[0]], d.norm[i]) || !equalBools(d.incl[g[0]], d.incl[i]) {
					run.Fail(core.Join("order", sys.String(), d.cstr[g[0]], d.cstr[i]), fmt.Sprintf("same alternatives in different order denote different sets: %s vs %s", setStr[g[0]], setStr[i]))
				}
			}
		}
		states += int64(n)
		transitions += int64(n) * int64(n) * 4
		nontrivial += nt
		evals += ev
		perSys[sys.String()] = map[string]any{"constraints": n, "rejected_by_parse": rejected, "pool_versions": len(d.pool), "ordered_pairs": n * n,
			"set_operations": n * n * 4, "membership_comparisons": ev, "alternative_order_pairs": orderPairs, "pairs_with_failures": failedPairs}
		run.Sample(map[string]any{"system": sys.String(), "A": d.cstr[n/3], "B": d.cstr[2*n/3], "A_set": setStr[n/3], "B_set": setStr[2*n/3]})
	}
	run.Cov["states"] = states
	run.Cov["transitions"] = transitions
	run.Cov["traces_validated_against_impl"] = transitions
	run.Cov["evaluations"] = evals
	run.Cov["distinct_nontrivial"] = nontrivial
	run.Cov["per_system"] = perSys
	run.Cov["explanation"] = "states = parsed constraints; transitions = Union/Intersect calls on the real Set type"
	run.Assumptions = []string{"constraint and version alphabets of DESIGN §6.5", "prerelease-inclusive matching of a result set is observed through ParseSetConstraint(set.String()).MatchVersionPrerelease, the only public route"}
	run.Finish()
}

func equalBools(a, b []bool) bool {
	if len(a) != len(b) {
		return false
	}
	for i := range a {
		if a[i] != b[i] {
			return false
		}
	}
	return true
}

// c09VersionsFor recomputes the boundary pool for a pair (replay path).
func c09VersionsFor(sys semver.System, cs ...string) []string {
	seen := map[string]bool{}
	var out []string
	add := func(v string) {
		if !seen[v] {
			seen[v] = true
			out = append(out, v)
		}
	}
	for _, g := range []string{"0.0.0-0", "0.0.0", "0.0.1", "999999.999999.999999", "1000000.0.0"} {
		if sys == semver.Go {
			g = "v" + g
		}
		add(g)
	}
	for _, s := range cs {
		c, err := sys.ParseConstraint(s)
		if err != nil {
			continue
		}
		for _, b := range dom.SetStringBounds(c.Set().String()) {
			for _, nb := range dom.BoundNeighbours(sys, b) {
				add(nb)
			}
		}
	}
	sort.Strings(out)
	return out
}

func c09Replay(w string) (bool, string) {
	p := core.Split(w)
	sys, ok := dom.SysByName(p[1])
	if !ok {
		return true, "unknown system"
	}
	switch p[0] {
	case "pair":
		var vs []string
		if p[5] != "" {
			vs = []string{p[5]}
		}
		var texts []string
		for _, f := range c09Pair(sys, p[2], p[3], vs) {
			if f.clause == p[4] && f.version == p[5] {
				texts = append(texts, f.text)
			}
		}
		return len(texts) == 0, strings.Join(texts, "\n")
	case "order":
		a, err1 := sys.ParseConstraint(p[2])
		b, err2 := sys.ParseConstraint(p[3])
		if err1 != nil || err2 != nil {
			return true, "unparsable"
		}
		var diffs []string
		for _, vs := range c09VersionsFor(sys, p[2], p[3]) {
			v, err := sys.Parse(vs)
			if err != nil {
				continue
			}
			if a.Set().MatchVersion(v) != b.Set().MatchVersion(v) || a.MatchVersionPrerelease(v) != b.MatchVersionPrerelease(v) {
				diffs = append(diffs, vs)
			}
		}
		return len(diffs) == 0, fmt.Sprintf("%s vs %s differ on %v", a.Set().String(), b.Set().String(), diffs)
	}
	return true, "unknown kind"
}
