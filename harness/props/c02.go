package props

import (
	"fmt"
	"strings"
	"sync/atomic"

	"deps.dev/util/semver"
	"verif/harness/core"
	"verif/harness/dom"
	"verif/harness/oracle"
)

var c02Systems = []semver.System{semver.NPM, semver.PyPI, semver.Cargo, semver.Go, semver.Maven, semver.RubyGems, semver.NuGet}

func c02TableName(sys semver.System) string { return "C02-" + sys.String() }

// C02Domain is the version domain the reference table of a system covers (the thorough domain; quick is a subset).
func C02Domain(sys semver.System) []string { return dom.Versions(sys, false) }

// c02Pair re-decides one pair against the committed table.
func c02Pair(sys semver.System, a, b string) (held bool, obs string) {
	full := C02Domain(sys)
	t, err := oracle.LoadVersionTable(c02TableName(sys), full)
	if err != nil {
		return true, "table unavailable: " + err.Error()
	}
	ia, ib := -1, -1
	for i, s := range full {
		if s == a {
			ia = i
		}
		if s == b {
			ib = i
		}
	}
	if ia < 0 || ib < 0 {
		return true, "not in the table's domain"
	}
	va, e1 := sys.Parse(a)
	vb, e2 := sys.Parse(b)
	if e1 != nil || e2 != nil || t.Rank[ia] < 0 || t.Rank[ib] < 0 {
		return true, "not accepted by both"
	}
	want := core.Sign(t.Rank[ia] - t.Rank[ib])
	got := core.Sign(va.Compare(vb))
	return got == want, fmt.Sprintf("library Compare(%s,%s)=%d, %s orders them %d", a, b, got, t.Tool, want)
}

// C02 decides agreement with each ecosystem's ordering.
func C02(tier string) {
	run := core.NewRun("C02", tier, c02Replay)
	quick := tier == "quick"
	run.Cov["rule"] = "per ecosystem: every pair of the version-grammar product domain that both the library and the reference accept is compared with the reference's order (committed reference table: one class id per string, computed by the ecosystem's own implementation - node-semver, packaging, the semver crate, x/mod/semver, Maven ComparableVersion - or by the transcribed Gem::Version / NuGet algorithms); every reference-normalised form must be accepted by Parse. Thorough regenerates the tables from the live tools and requires identical answers. Non-trivial = pair of distinct strings accepted by both."
	var states, transitions, nontrivial, validated int64
	per := map[string]any{}
	for _, sys := range c02Systems {
		full := C02Domain(sys)
		t, err := oracle.LoadVersionTable(c02TableName(sys), full)
		if err != nil {
			core.Harness("C02: %v", err)
		}
		live := "not re-run in this tier"
		if !quick {
			if oracle.Available(sys.String()) {
				lt, err := oracle.BuildVersionTable(sys.String(), full)
				if err != nil {
					core.Harness("C02 %v: live reference failed: %v", sys, err)
				}
				for i := range full {
					same := lt.Rank[i] >= 0 == (t.Rank[i] >= 0)
					if same && lt.Rank[i] >= 0 && *lt.Norm[i] != *t.Norm[i] {
						same = false
					}
					if !same {
						core.Harness("C02 %v: the committed table disagrees with the live reference on %q", sys, full[i])
					}
				}
				// same order: compare class partitions
				for i := range full {
					for j := i + 1; j < len(full) && j < i+40; j++ {
						if t.Rank[i] >= 0 && t.Rank[j] >= 0 && core.Sign(t.Rank[i]-t.Rank[j]) != core.Sign(lt.Rank[i]-lt.Rank[j]) {
							core.Harness("C02 %v: the committed table orders %q/%q differently from the live reference", sys, full[i], full[j])
						}
					}
				}
				validated += int64(len(full))
				live = "identical to live " + lt.Tool
			} else {
				live = "tool not present"
			}
		}
		inDomain := map[string]bool{}
		for _, s := range dom.Versions(sys, quick) {
			inDomain[s] = true
		}
		var idx []int
		var vers []*semver.Version
		refOnly, libOnly, neither, inexact := 0, 0, 0, 0
		for i, s := range full {
			if !inDomain[s] {
				continue
			}
			v, err := sys.Parse(s)
			if sys == semver.NPM && beyondFloat53(s) {
				// node-semver compares numeric identifiers as IEEE doubles: above 2^53-1 its own order is inexact
				// (…806 == …807). Such strings are outside the domain on which the reference is an order to agree with.
				inexact++
				continue
			}
			switch {
			case err == nil && t.Rank[i] >= 0:
				idx = append(idx, i)
				vers = append(vers, v)
			case err == nil:
				libOnly++
			case t.Rank[i] >= 0:
				refOnly++
			default:
				neither++
			}
			// normalised form accepted
			if t.Rank[i] >= 0 && t.Norm[i] != nil {
				if _, err := sys.Parse(*t.Norm[i]); err != nil {
					run.Fail(core.Join("norm", sys.String(), s, *t.Norm[i]), fmt.Sprintf("%s writes %q as %q, which Parse rejects: %v", t.Tool, s, *t.Norm[i], err))
				}
			}
		}
		n := len(idx)
		if n < 50 {
			core.Harness("C02 %v: only %d strings accepted by both sides", sys, n)
		}
		var drift, bad int64
		core.ParFor(n, func(x int) {
			for y := 0; y < n; y++ {
				i, j := idx[x], idx[y]
				want := core.Sign(t.Rank[i] - t.Rank[j])
				if t.AltRank != nil {
					if t.AltRank[i] < 0 || t.AltRank[j] < 0 || core.Sign(t.AltRank[i]-t.AltRank[j]) != want {
						atomic.AddInt64(&drift, 1)
						continue
					}
				}
				if core.Sign(vers[x].Compare(vers[y])) != want {
					atomic.AddInt64(&bad, 1)
					run.Fail(core.Join("order", sys.String(), full[i], full[j]), fmt.Sprintf("library Compare=%d, %s orders them %d", core.Sign(vers[x].Compare(vers[y])), t.Tool, want))
				}
			}
		})
		states += int64(n)
		transitions += int64(n) * int64(n)
		nontrivial += int64(n) * int64(n-1)
		classes := map[int]bool{}
		for _, i := range idx {
			classes[t.Rank[i]] = true
		}
		run.Outcome(fmt.Sprintf("%v:%d", sys, len(classes)))
		per[sys.String()] = map[string]any{"reference": t.Tool, "alt_reference": t.AltTool, "accepted_by_both": n, "library_only": libOnly, "reference_only": refOnly, "neither": neither, "reference_inexact_beyond_2^53": inexact,
			"pairs": n * n, "reference_classes": len(classes), "undecided_reference_drift_pairs": drift, "disagreeing_pairs": bad, "live_revalidation": live}
		run.Sample(map[string]any{"system": sys.String(), "a": full[idx[n/3]], "b": full[idx[2*n/3]], "reference_order": core.Sign(t.Rank[idx[n/3]] - t.Rank[idx[2*n/3]])})
	}
	run.Cov["states"] = states
	run.Cov["transitions"] = transitions
	run.Cov["traces_validated_against_impl"] = validated
	run.Cov["evaluations"] = transitions
	run.Cov["distinct_nontrivial"] = nontrivial
	run.Cov["per_system"] = per
	run.Cov["explanation"] = "traces_validated_against_impl counts reference-table rows re-computed by the live reference tool in this run (thorough tier)"
	run.Assumptions = []string{"RubyGems and NuGet references are transcriptions of the published algorithms, not the ecosystems' binaries", "Maven reference is 3.8.7 on the DESIGN §6.4 dash-form domain", "pairs on which packaging 21.3 and 26.3 disagree are counted as undecided"}
	run.Finish()
}

func c02Replay(w string) (bool, string) {
	p := core.Split(w)
	sys, ok := dom.SysByName(p[1])
	if !ok {
		return true, "unknown system"
	}
	switch p[0] {
	case "order":
		return c02Pair(sys, p[2], p[3])
	case "norm":
		_, err := sys.Parse(p[3])
		return err == nil, fmt.Sprintf("Parse(%q): %v", p[3], err)
	}
	return true, "unknown"
}

var _ = strings.Join

// beyondFloat53 reports whether the string contains a digit run denoting a number above 2^53-1.
func beyondFloat53(s string) bool {
	run := ""
	check := func() bool {
		r := strings.TrimLeft(run, "0")
		run = ""
		return len(r) > 16 || (len(r) == 16 && r > "9007199254740991")
	}
	for _, c := range s {
		if c >= '0' && c <= '9' {
			run += string(c)
			continue
		}
		if check() {
			return true
		}
	}
	return check()
}
