package props

import (
	"fmt"
	"sort"
	"strconv"
	"strings"
	"sync/atomic"

	"deps.dev/util/resolve"
	"deps.dev/util/resolve/dep"
	"verif/harness/core"
	"verif/harness/univ"
)

// cgraph is the harness's own plain description of a rooted graph.
type cgraph struct {
	labels []string   // version label per node; node 0 is the root
	errs   [][]string // error strings per node (requirement key fixed)
	edges  []cedge
}

type cedge struct {
	from, to int
	req      string
	dev      bool
	// valued is "" or one of "x", "y", "z": the type carries two valued attributes (Scope, KnownAs); x and y agree on
	// the lower key, x and z on the higher one, so that only a comparison looking at every key tells them apart
	valued string
}

func (g cgraph) encode() string {
	var sb strings.Builder
	sb.WriteString(strings.Join(g.labels, ","))
	sb.WriteString(";")
	for i, e := range g.errs {
		if i > 0 {
			sb.WriteString(",")
		}
		sb.WriteString(strings.Join(e, "+"))
	}
	sb.WriteString(";")
	for i, e := range g.edges {
		if i > 0 {
			sb.WriteString(",")
		}
		t := "r"
		if e.dev {
			t = "d"
		}
		t += e.valued
		fmt.Fprintf(&sb, "%d>%d:%s:%s", e.from, e.to, e.req, t)
	}
	return sb.String()
}

func decodeCgraph(s string) (cgraph, bool) {
	p := strings.Split(s, ";")
	if len(p) != 3 {
		return cgraph{}, false
	}
	var g cgraph
	g.labels = strings.Split(p[0], ",")
	for _, e := range strings.Split(p[1], ",") {
		if e == "" {
			g.errs = append(g.errs, nil)
		} else {
			g.errs = append(g.errs, strings.Split(e, "+"))
		}
	}
	if len(g.errs) != len(g.labels) {
		return cgraph{}, false
	}
	if p[2] != "" {
		for _, es := range strings.Split(p[2], ",") {
			f := strings.Split(es, ":")
			if len(f) != 3 {
				return cgraph{}, false
			}
			ft := strings.Split(f[0], ">")
			a, err1 := strconv.Atoi(ft[0])
			b, err2 := strconv.Atoi(ft[1])
			if err1 != nil || err2 != nil || a >= len(g.labels) || b >= len(g.labels) {
				return cgraph{}, false
			}
			g.edges = append(g.edges, cedge{a, b, f[1], strings.HasPrefix(f[2], "d"), strings.TrimLeft(f[2], "rd")})
		}
	}
	return g, true
}

func c13VK(label string) resolve.VersionKey {
	name, ver, _ := strings.Cut(label, "@")
	if ver == "" {
		ver = "1"
	}
	return resolve.VersionKey{PackageKey: resolve.PackageKey{System: resolve.NPM, Name: name}, VersionType: resolve.Concrete, Version: ver}
}

var c13ErrReq = resolve.VersionKey{PackageKey: resolve.PackageKey{System: resolve.NPM, Name: "missing"}, VersionType: resolve.Requirement, Version: "*"}

// build makes a real resolve.Graph with nodes renumbered by perm (perm[old]=new,
// perm[0]=0), edges in the given order and errors in the given rotation.
func (g cgraph) build(perm []int, edgeOrder []int, errRot int) *resolve.Graph {
	n := len(g.labels)
	inv := make([]int, n)
	for old, nw := range perm {
		inv[nw] = old
	}
	rg := &resolve.Graph{}
	multi := 0
	for nw := 0; nw < n; nw++ {
		old := inv[nw]
		id := rg.AddNode(c13VK(g.labels[old]))
		es := g.errs[old]
		rot := 0
		if len(es) > 1 {
			// errRot is a bit mask over the nodes that carry several errors: each list is rotated on its own
			rot = errRot >> multi & 1
			multi++
		}
		for k := range es {
			rg.AddError(id, c13ErrReq, es[(k+rot)%len(es)])
		}
	}
	for _, ei := range edgeOrder {
		e := g.edges[ei]
		t := dep.NewType()
		if e.dev {
			t = dep.NewType(dep.Dev)
		}
		switch e.valued {
		case "x", "y":
			t.AddAttr(dep.Scope, "s")
			t.AddAttr(dep.KnownAs, e.valued)
		case "z": // differs from x in the first valued attribute only
			t.AddAttr(dep.Scope, "t")
			t.AddAttr(dep.KnownAs, "x")
		}
		rg.AddEdge(resolve.NodeID(perm[e.from]), resolve.NodeID(perm[e.to]), e.req, t)
	}
	return rg
}

func typeTag(t dep.Type) string {
	if t.IsRegular() {
		return "r"
	}
	if t.Equal(devType) {
		return "d"
	}
	return univ.TypeSig(t)
}

var devType = dep.NewType(dep.Dev)

func dumpGraph(rg *resolve.Graph) string {
	buf := make([]byte, 0, 16*len(rg.Nodes)+16*len(rg.Edges))
	for _, nd := range rg.Nodes {
		buf = append(buf, nd.Version.Name...)
		buf = append(buf, '@')
		buf = append(buf, nd.Version.Version...)
		for _, e := range nd.Errors {
			buf = append(buf, '!')
			buf = append(buf, e.Error...)
		}
		buf = append(buf, ' ')
	}
	buf = append(buf, '|')
	for _, e := range rg.Edges {
		buf = strconv.AppendInt(buf, int64(e.From), 10)
		buf = append(buf, '>')
		buf = strconv.AppendInt(buf, int64(e.To), 10)
		buf = append(buf, ':')
		buf = append(buf, e.Requirement...)
		buf = append(buf, ':')
		buf = append(buf, typeTag(e.Type)...)
		buf = append(buf, ' ')
	}
	return string(buf)
}

func nodeSig(nd resolve.Node) string {
	if len(nd.Errors) == 0 {
		return nd.Version.Name + "@" + nd.Version.Version
	}
	es := make([]string, len(nd.Errors))
	for i, e := range nd.Errors {
		es[i] = e.Error
	}
	sort.Strings(es)
	return nd.Version.Name + "@" + nd.Version.Version + "!" + strings.Join(es, "!")
}

// multisets returns the node multiset and edge multiset signatures of a graph.
func multisets(rg *resolve.Graph) (string, string) {
	ns := make([]string, len(rg.Nodes))
	for i, nd := range rg.Nodes {
		ns[i] = nodeSig(nd)
	}
	es := make([]string, len(rg.Edges))
	for i, e := range rg.Edges {
		es[i] = ns[e.From] + ">" + ns[e.To] + ":" + e.Requirement + ":" + typeTag(e.Type)
	}
	sorted := append([]string(nil), ns...)
	sort.Strings(sorted)
	sort.Strings(es)
	return strings.Join(sorted, " "), strings.Join(es, " ")
}

// c13Variants enumerates the orbit of g: every renumbering of non-root nodes x edge orders x error rotations.
func c13Variants(g cgraph, f func(perm, edgeOrder []int, errRot int)) {
	n := len(g.labels)
	ne := len(g.edges)
	ident := make([]int, ne)
	for i := range ident {
		ident[i] = i
	}
	var orders [][]int
	if ne <= 4 {
		permute(ne, func(p []int) { orders = append(orders, append([]int(nil), p...)) })
	} else {
		rev := make([]int, ne)
		rot := make([]int, ne)
		for i := range ident {
			rev[i] = ne - 1 - i
			rot[i] = (i + ne/2) % ne
		}
		orders = [][]int{ident, rev, rot}
	}
	if ne == 0 {
		orders = [][]int{{}}
	}
	maxErr := 1
	for _, e := range g.errs {
		if len(e) > 1 {
			maxErr *= 2 // every subset of the multi-error lists is rotated
		}
	}
	perm := make([]int, n)
	permute(n-1, func(p []int) {
		for i, x := range p {
			perm[i+1] = x + 1
		}
		for _, o := range orders {
			for r := 0; r < maxErr; r++ {
				f(perm, o, r)
			}
		}
	})
}

// c13Orbit checks one base graph; returns failures and the number of Canon calls.
func c13Orbit(g cgraph) (fails []string, calls int) {
	first := true
	var refDump, refErr, refDesc string
	seenFail := map[string]bool{}
	fail := func(clause, msg string) {
		if !seenFail[clause] {
			seenFail[clause] = true
			fails = append(fails, clause+": "+msg)
		}
	}
	c13Variants(g, func(perm, order []int, rot int) {
		rg := g.build(perm, order, rot)
		rootBefore := nodeSig(rg.Nodes[0])
		n0, e0 := multisets(rg)
		err := rg.Canon()
		calls++
		desc := fmt.Sprintf("perm=%v edges=%v errRot=%d", perm, order, rot)
		n1, e1 := multisets(rg)
		if n0 != n1 {
			fail("nodes", fmt.Sprintf("node multiset changed by Canon (%s): %s -> %s", desc, n0, n1))
		}
		if e0 != e1 {
			fail("edges", fmt.Sprintf("edge multiset changed by Canon (%s): %s -> %s", desc, e0, e1))
		}
		if nodeSig(rg.Nodes[0]) != rootBefore {
			fail("root", fmt.Sprintf("root changed by Canon (%s): %s -> %s", desc, rootBefore, nodeSig(rg.Nodes[0])))
		}
		d, es := "", ""
		if err != nil {
			es = "error"
		} else {
			d = dumpGraph(rg)
			// idempotence
			err2 := rg.Canon()
			calls++
			if err2 != nil {
				fail("idem", fmt.Sprintf("second Canon fails (%s): %v", desc, err2))
			} else if d2 := dumpGraph(rg); d2 != d {
				fail("idem", fmt.Sprintf("Canon is not idempotent (%s): %s -> %s", desc, d, d2))
			}
		}
		if first {
			first = false
			refDump, refErr, refDesc = d, es, desc
			return
		}
		if es != refErr {
			fail("orbit", fmt.Sprintf("Canon fails for one presentation and succeeds for another: %s -> %q, %s -> %q", refDesc, refErr, desc, es))
		} else if d != refDump {
			fail("orbit", fmt.Sprintf("different canonical graphs for two presentations: %s -> %s ; %s -> %s", refDesc, refDump, desc, d))
		}
	})
	return fails, calls
}

// ---- enumeration of base graphs ----

type c13Bounds struct {
	nodes     int // total nodes incl. root
	maxEdges  int
	maxDev    int  // decorations
	connected bool // only graphs in which every node is reachable from the root
	forward   bool // no self loops and no edges into the root
}

// c13Enumerate calls f for every base graph within the bounds. Structures are all
// edge sets (ordered pairs incl. self loops) with <= maxEdges edges; labels all
// assignments of {A,B} to all nodes incl. the root; decorations (each one
// deviation): dev type on an edge, requirement b on an edge, a parallel edge
// with different type, one error on a node, two errors on a node.
func c13Enumerate(b c13Bounds, f func(g cgraph)) {
	n := b.nodes
	var pairs [][2]int
	for i := 0; i < n; i++ {
		for j := 0; j < n; j++ {
			if b.forward && (j == 0 || i == j) {
				continue
			}
			pairs = append(pairs, [2]int{i, j})
		}
	}
	var chosen []int
	var recEdges func(start int)
	emit := func() {
		if b.connected {
			reach := make([]bool, n)
			reach[0] = true
			for changed := true; changed; {
				changed = false
				for _, pi := range chosen {
					if reach[pairs[pi][0]] && !reach[pairs[pi][1]] {
						reach[pairs[pi][1]] = true
						changed = true
					}
				}
			}
			for _, r := range reach {
				if !r {
					return
				}
			}
		}
		for lab := 0; lab < 1<<n; lab++ {
			g := cgraph{labels: make([]string, n), errs: make([][]string, n)}
			for i := 0; i < n; i++ {
				if lab>>i&1 == 1 {
					g.labels[i] = "B"
				} else {
					g.labels[i] = "A"
				}
			}
			for _, pi := range chosen {
				g.edges = append(g.edges, cedge{from: pairs[pi][0], to: pairs[pi][1], req: "a"})
			}
			c13Decorate(g, b.maxDev, 0, f)
		}
	}
	recEdges = func(start int) {
		emit()
		if len(chosen) == b.maxEdges {
			return
		}
		for i := start; i < len(pairs); i++ {
			chosen = append(chosen, i)
			recEdges(i + 1)
			chosen = chosen[:len(chosen)-1]
		}
	}
	recEdges(0)
}

// decoration slots are ordered to avoid emitting the same decorated graph twice.
func c13Decorate(g cgraph, left, fromSlot int, f func(g cgraph)) {
	f(g)
	if left == 0 {
		return
	}
	ne, nn := len(g.edges), len(g.labels)
	// slots: for each original edge 6 slots (dev, req b, parallel with other type, parallel with other req,
	// parallel with both other, a pair of parallel edges whose types differ only in the value of their second
	// valued attribute), for each node 2 slots (1 error, 2 errors)
	const es = 7
	total := ne*es + nn*2
	for s := fromSlot; s < total; s++ {
		h := cgraph{labels: g.labels, errs: append([][]string(nil), g.errs...), edges: append([]cedge(nil), g.edges...)}
		if s < ne*es {
			e, k := s/es, s%es
			other := func(r string) string {
				if r == "a" {
					return "b"
				}
				return "a"
			}
			switch k {
			case 0:
				h.edges[e].dev = true
			case 1:
				h.edges[e].req = "b"
			case 2:
				p := h.edges[e]
				p.dev = !p.dev
				h.edges = append(h.edges, p)
			case 3:
				p := h.edges[e]
				p.req = other(p.req)
				h.edges = append(h.edges, p)
			case 4:
				p := h.edges[e]
				p.req = other(p.req)
				p.dev = !p.dev
				h.edges = append(h.edges, p)
			case 5:
				h.edges[e].valued = "x"
				p := h.edges[e]
				p.valued = "y"
				h.edges = append(h.edges, p)
			case 6:
				h.edges[e].valued = "x"
				p := h.edges[e]
				p.valued = "z"
				h.edges = append(h.edges, p)
			}
		} else {
			nd, k := (s-ne*es)/2, (s-ne*es)%2
			if len(h.errs[nd]) > 0 {
				continue
			}
			if k == 0 {
				h.errs[nd] = []string{"e1"}
			} else {
				h.errs[nd] = []string{"e1", "e2"}
			}
		}
		c13Decorate(h, left-1, s+1, f)
	}
}

// c13Structured: 13-16 nodes, all but k<=3 are distinct filler leaves; the k
// interesting nodes (duplicates of each other or of the root) are placed at
// every combination of positions. One orbit = all placements.
func c13Structured(run *core.Run, total int, k int, quick bool) (orbits, calls int64) {
	fillers := total - 1 - k
	// interesting label choices: R = same as root, D = a shared other label
	var labelings [][]string
	var rec func(cur []string)
	rec = func(cur []string) {
		if len(cur) == k {
			labelings = append(labelings, append([]string(nil), cur...))
			return
		}
		for _, l := range []string{"M", "D"} { // root is labelled M (middle of the filler range)
			rec(append(cur, l))
		}
	}
	rec(nil)
	structures := []string{"star", "chain"}
	for _, lab := range labelings {
		for _, st := range structures {
			// enumerate position combinations
			pos := make([]int, k)
			var refDump, refErr, refDesc string
			first := true
			failed := false
			var choose func(idx, start int)
			choose = func(idx, start int) {
				if failed {
					return
				}
				if idx == k {
					// build graph: node positions 1..total-1; interesting nodes at pos[], fillers elsewhere in name order
					g := cgraph{labels: make([]string, total), errs: make([][]string, total)}
					g.labels[0] = "M"
					isInt := map[int]int{}
					for i, p := range pos {
						isInt[p] = i
					}
					fi := 0
					var intNodes []int
					for p := 1; p < total; p++ {
						if i, ok := isInt[p]; ok {
							g.labels[p] = lab[i]
							intNodes = append(intNodes, p)
						} else {
							g.labels[p] = fmt.Sprintf("F%02d", fi*2) // F00,F02,.. and later letters around M
							if fi >= fillers/2 {
								g.labels[p] = fmt.Sprintf("P%02d", fi)
							}
							fi++
						}
					}
					// fillers are children of the root; interesting nodes: star = children of root, chain = root -> i1 -> i2 -> i3
					for p := 1; p < total; p++ {
						if _, ok := isInt[p]; !ok {
							g.edges = append(g.edges, cedge{from: 0, to: p, req: "a"})
						}
					}
					// interesting nodes ordered by their index i (not by position) so that the abstract graph is the same
					byIdx := make([]int, k)
					for p, i := range isInt {
						byIdx[i] = p
					}
					for i, p := range byIdx {
						if st == "star" || i == 0 {
							g.edges = append(g.edges, cedge{from: 0, to: p, req: "a"})
						} else {
							g.edges = append(g.edges, cedge{from: byIdx[i-1], to: p, req: "a"})
						}
					}
					ident := make([]int, total)
					for i := range ident {
						ident[i] = i
					}
					eo := make([]int, len(g.edges))
					for i := range eo {
						eo[i] = i
					}
					rg := g.build(ident, eo, 0)
					err := rg.Canon()
					calls++
					d, es := "", ""
					if err != nil {
						es = "error"
					} else {
						d = dumpGraph(rg)
					}
					desc := fmt.Sprintf("positions=%v", pos)
					if first {
						first = false
						refDump, refErr, refDesc = d, es, desc
						return
					}
					if es != refErr || d != refDump {
						failed = true
						run.Fail(core.Join("structured", strconv.Itoa(total), strings.Join(lab, ","), st, intsJoin(pos)), fmt.Sprintf("placement %s and %s of the same graph canonicalise differently: %q/%s vs %q/%s", refDesc, desc, refErr, refDump, es, d))
					}
					return
				}
				for p := start; p < total; p++ {
					pos[idx] = p
					choose(idx+1, p+1)
				}
			}
			choose(0, 1)
			orbits++
			if quick && orbits > 2000 {
				return
			}
		}
	}
	return
}

func intsJoin(a []int) string {
	s := make([]string, len(a))
	for i, x := range a {
		s[i] = strconv.Itoa(x)
	}
	return strings.Join(s, ".")
}

// C13 decides the canonicalisation property.
func C13(tier string) {
	run := core.NewRun("C13", tier, c13Replay)
	quick := tier == "quick"
	if quick {
		run.SetBudget(100e9)
	} else {
		run.SetBudget(2400e9)
	}
	run.Cov["rule"] = "all rooted graphs within the node/edge/decoration bounds over the label alphabet {A,B} (root included), each presented under every renumbering of non-root nodes x edge orders (all permutations if <=4 edges, else as generated/reversed/rotated) x error rotations; oracle: one outcome per orbit (same canonical graph or failure for all), idempotence, root, node and edge multisets preserved; plus structured 13-16 node family (placements of <=3 duplicate nodes among distinct fillers) exercising sort.Sort's large-slice path. Non-trivial = graph has a duplicate version, a parallel edge, a self loop or a node error."
	bounds := []c13Bounds{{1, 1, 3, false, false}, {2, 3, 2, false, false}, {3, 3, 1, false, false}, {3, 2, 2, true, true}, {4, 3, 0, false, false}, {5, 5, 0, true, true}}
	if !quick {
		bounds = []c13Bounds{{1, 1, 4, false, false}, {2, 4, 3, false, false}, {3, 5, 2, false, false}, {4, 4, 2, false, false}, {5, 3, 1, false, false}, {5, 6, 0, true, false}, {5, 5, 1, true, true}}
	}
	var graphs, calls, nontrivial int64
	per := []any{}
	for _, b := range bounds {
		var batch []cgraph
		var g0, c0 int64
		flush := func() {
			core.ParFor(len(batch), func(i int) {
				fails, c := c13Orbit(batch[i])
				atomic.AddInt64(&c0, int64(c))
				for _, f := range fails {
					clause, _, _ := strings.Cut(f, ":")
					run.Fail(core.Join("orbit", clause, batch[i].encode()), f)
				}
			})
			batch = batch[:0]
		}
		capped := false
		c13Enumerate(b, func(g cgraph) {
			if capped {
				return
			}
			g0++
			if c13NonTrivial(g) {
				nontrivial++
			}
			batch = append(batch, g)
			if len(batch) >= 20000 {
				flush()
				if run.OutOfTime(fmt.Sprintf("C13 bounds %+v", b)) || run.Violations() > 2000 {
					capped = true
				}
			}
		})
		flush()
		if capped && run.Violations() > 2000 {
			run.Cap("stopped early: more than 2000 violations")
		}
		graphs += g0
		calls += c0
		per = append(per, map[string]any{"connected_only": b.connected, "forward_edges_only": b.forward, "nodes": b.nodes, "max_edges": b.maxEdges, "max_decorations": b.maxDev, "base_graphs": g0, "canon_calls": c0, "completed": !capped})
		if g0 > 0 {
			run.Outcome(fmt.Sprintf("%+v:%d", b, g0))
		}
	}
	// structured family
	var so, sc int64
	sizes := []int{13, 16}
	if !quick {
		sizes = []int{13, 14, 15, 16}
	}
	for _, total := range sizes {
		for k := 1; k <= 3; k++ {
			o, c := c13Structured(run, total, k, quick)
			so += o
			sc += c
		}
	}
	run.Sample(map[string]any{"graph": "B,B,A;,,;0>1:a:r,1>2:a:r", "meaning": "labels;errors;edges(from>to:req:type)"})
	run.Cov["states"] = graphs + so
	run.Cov["transitions"] = calls + sc
	run.Cov["traces_validated_against_impl"] = calls + sc
	run.Cov["evaluations"] = calls + sc
	run.Cov["distinct_nontrivial"] = nontrivial
	run.Cov["bounds"] = per
	run.Cov["structured_family"] = map[string]any{"orbits": so, "canon_calls": sc, "sizes": sizes}
	run.Assumptions = []string{"graphs beyond the stated node/edge/decoration bounds are not covered; the property's random 40-node family is replaced by the exhaustive structured 13-16 node family (DESIGN §7)"}
	run.Finish()
}

func c13NonTrivial(g cgraph) bool {
	seen := map[string]bool{}
	for i, l := range g.labels {
		if seen[l] || len(g.errs[i]) > 0 {
			return true
		}
		seen[l] = true
	}
	pairs := map[[2]int]bool{}
	for _, e := range g.edges {
		if e.from == e.to || pairs[[2]int{e.from, e.to}] {
			return true
		}
		pairs[[2]int{e.from, e.to}] = true
	}
	return false
}

func c13Replay(w string) (bool, string) {
	p := core.Split(w)
	switch p[0] {
	case "orbit":
		g, ok := decodeCgraph(p[2])
		if !ok {
			return true, "bad graph"
		}
		fails, _ := c13Orbit(g)
		var rel []string
		for _, f := range fails {
			if strings.HasPrefix(f, p[1]+":") {
				rel = append(rel, f)
			}
		}
		return len(rel) == 0, strings.Join(rel, "\n")
	case "structured":
		// re-run the whole (size, k) family member; deterministic
		total, _ := strconv.Atoi(p[1])
		lab := strings.Split(p[2], ",")
		r := core.NewRun("C13-replay", "quick", nil)
		c13Structured(r, total, len(lab), false)
		return !r.Failed(), "structured family re-run"
	}
	return true, "unknown"
}
