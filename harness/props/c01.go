package props

import (
	"fmt"
	"os"
	"os/exec"
	"sort"
	"strings"
	"sync/atomic"
	"time"

	"deps.dev/util/resolve"
	"deps.dev/util/semver"
	"verif/harness/core"
	"verif/harness/dom"
)

// ---- shared: comparison matrix over a parsed domain ----

type cmpDomain struct {
	sys  semver.System
	strs []string
	vers []*semver.Version
	m    [][]int8 // m[i][j] = sign(vers[i].Compare(vers[j]))
	rank []int    // class id per element (valid only if certificate passed)
}

func parseDomain(sys semver.System, strs []string) (*cmpDomain, int) {
	d := &cmpDomain{sys: sys}
	rejected := 0
	for _, s := range strs {
		v, err := sys.Parse(s)
		if err != nil {
			rejected++
			continue
		}
		d.strs = append(d.strs, s)
		d.vers = append(d.vers, v)
	}
	return d, rejected
}

func (d *cmpDomain) fill() {
	n := len(d.vers)
	d.m = make([][]int8, n)
	core.ParFor(n, func(i int) {
		row := make([]int8, n)
		for j := 0; j < n; j++ {
			other := d.vers[j]
			if j == i {
				// reflexivity is judged on two separately parsed copies: comparing an object with itself
				// may take an identity shortcut
				if again, err := d.sys.Parse(d.strs[i]); err == nil {
					other = again
				}
			}
			row[j] = int8(core.Sign(d.vers[i].Compare(other)))
		}
		d.m[i] = row
	})
}

// certificate sorts by the matrix and checks that one ranking explains every
// pair; it returns the offending pairs (empty iff the matrix is a total
// preorder).
func (d *cmpDomain) certificate() [][2]int {
	n := len(d.vers)
	idx := make([]int, n)
	for i := range idx {
		idx[i] = i
	}
	sort.SliceStable(idx, func(a, b int) bool { return d.m[idx[a]][idx[b]] < 0 })
	d.rank = make([]int, n)
	c := 0
	for k := 1; k < n; k++ {
		if d.m[idx[k-1]][idx[k]] != 0 {
			c++
		}
		d.rank[idx[k]] = c
	}
	var bad [][2]int
	for i := 0; i < n; i++ {
		for j := 0; j < n; j++ {
			if int(d.m[i][j]) != core.Sign(d.rank[i]-d.rank[j]) {
				if len(bad) < 64 {
					bad = append(bad, [2]int{i, j})
				}
			}
		}
	}
	return bad
}

// tripleHolds checks the total-preorder laws on {a,b,c} with fresh parses.
func tripleHolds(sys semver.System, a, b, c string) (bool, string) {
	s := []string{a, b, c}
	var v [3]*semver.Version
	for i := range s {
		var err error
		if v[i], err = sys.Parse(s[i]); err != nil {
			return true, "unparsable " + s[i]
		}
	}
	var m [3][3]int
	var sb strings.Builder
	for i := 0; i < 3; i++ {
		for j := 0; j < 3; j++ {
			m[i][j] = core.Sign(v[i].Compare(v[j]))
			fmt.Fprintf(&sb, "cmp(%s,%s)=%d ", s[i], s[j], m[i][j])
		}
	}
	ok := true
	for i := 0; i < 3; i++ {
		if m[i][i] != 0 {
			ok = false
		}
		for j := 0; j < 3; j++ {
			if m[i][j] != -m[j][i] {
				ok = false
			}
			for k := 0; k < 3; k++ {
				if m[i][j] <= 0 && m[j][k] <= 0 && !(m[i][k] <= 0) {
					ok = false
				}
				if m[i][j] == 0 && m[i][k] != m[j][k] {
					ok = false
				}
			}
		}
	}
	return ok, sb.String()
}

func stripBuild(s string) string {
	if i := strings.IndexByte(s, '+'); i >= 0 {
		return s[:i]
	}
	return s
}

func hasBuildMetadata(sys semver.System) bool {
	switch sys {
	case semver.DefaultSystem, semver.Cargo, semver.Go, semver.NPM, semver.NuGet, semver.Composer:
		return true
	}
	return false
}

func resolveSystem(sys semver.System) (resolve.System, bool) {
	switch sys {
	case semver.NPM:
		return resolve.NPM, true
	case semver.Maven:
		return resolve.Maven, true
	case semver.PyPI:
		return resolve.PyPI, true
	}
	return 0, false
}

// C01 decides the total-preorder property.
func C01(tier string) {
	run := core.NewRun("C01", tier, c01Replay)
	quick := tier == "quick"
	run.Cov["rule"] = "per system: full product domain of DESIGN §6.1-6.4 filtered by Parse; all pairs by real Compare (matrix computed twice: cached parses row-major, fresh parses via System.Compare in reverse column-major); all triples decided by the ranking certificate over the matrix; a pair is non-trivial when the two strings differ; cross-system histories: for every ordered pair of systems (A, B) a fresh child process compares a 95-string list (prerelease identifiers around the int32/int64 limits) in A and then in B, and B's matrix must equal the one a fresh process computes"
	var states, transitions, nontrivial int64
	perSys := map[string]any{}
	for _, sys := range dom.Systems {
		t0 := time.Now()
		strs := append(dom.Versions(sys, quick), dom.C01Extra(sys)...)
		d, rejected := parseDomain(sys, strs)
		n := len(d.vers)
		if n < 20 {
			core.Harness("C01 %v: domain collapsed to %d parsed versions", sys, n)
		}
		d.fill()
		transitions += int64(n) * int64(n)
		states += int64(n)
		// reflexivity / antisymmetry
		for i := 0; i < n; i++ {
			if d.m[i][i] != 0 {
				run.Fail(core.Join("triple", sys.String(), d.strs[i], d.strs[i], d.strs[i]), "not reflexive")
			}
			for j := i + 1; j < n; j++ {
				if d.m[i][j] != -d.m[j][i] {
					run.Fail(core.Join("triple", sys.String(), d.strs[i], d.strs[j], d.strs[j]), fmt.Sprintf("cmp(a,b)=%d cmp(b,a)=%d", d.m[i][j], d.m[j][i]))
				}
			}
		}
		// transitivity + congruence for all triples: ranking certificate
		bad := d.certificate()
		if len(bad) > 0 {
			found := c01FindTriples(run, d, bad)
			if found == 0 {
				core.Harness("C01 %v: ranking certificate failed but no violating triple found", sys)
			}
		}
		// distinct outcomes / classes
		classes := 0
		for _, r := range d.rank {
			if r+1 > classes {
				classes = r + 1
			}
		}
		nontrivial += int64(n) * int64(n-1)
		// history independence: recompute with fresh parses through System.Compare, other order
		var histBad int64
		core.ParFor(n, func(jj int) {
			j := n - 1 - jj
			for i := n - 1; i >= 0; i-- {
				if int8(core.Sign(sys.Compare(d.strs[i], d.strs[j]))) != d.m[i][j] {
					atomic.AddInt64(&histBad, 1)
					run.Fail(core.Join("hist", sys.String(), d.strs[i], d.strs[j]), "System.Compare on strings differs from (*Version).Compare on cached parses")
				}
			}
		})
		transitions += int64(n) * int64(n)
		// build metadata clause
		buildPairs := 0
		if hasBuildMetadata(sys) {
			byCore := map[string][]int{}
			for i, s := range d.strs {
				byCore[stripBuild(s)] = append(byCore[stripBuild(s)], i)
			}
			for _, g := range byCore {
				for _, i := range g {
					for _, j := range g {
						if i != j {
							buildPairs++
							if d.m[i][j] != 0 {
								run.Fail(core.Join("build", sys.String(), d.strs[i], d.strs[j]), "versions differing only in build metadata do not compare equal")
							}
						}
					}
				}
			}
		}
		// sorting clause
		sorts := 0
		if rsys, ok := resolveSystem(sys); ok && len(bad) == 0 {
			sorts = c01Sorting(run, d, rsys, quick)
		}
		run.Outcome(fmt.Sprintf("%v:%d classes", sys, classes))
		perSys[sys.String()] = map[string]any{"domain": len(strs), "parsed": n, "rejected_by_parse": rejected, "equivalence_classes": classes,
			"wall_s": time.Since(t0).Seconds(), "pairs": n * n, "triples_decided_by_certificate": int64(n) * int64(n) * int64(n), "build_metadata_pairs": buildPairs, "sort_permutations": sorts}
		run.Sample(map[string]any{"system": sys.String(), "a": d.strs[n/3], "b": d.strs[2*n/3], "cmp": d.m[n/3][2*n/3]})
		if classes < 10 {
			core.Harness("C01 %v: only %d equivalence classes — vacuous domain", sys, classes)
		}
	}
	hs, hc := c01History(run)
	transitions += hc
	run.Cov["cross_system_histories"] = map[string]any{"two_step_histories_in_fresh_processes": hs, "compares": hc, "strings_per_system": len(c01HistoryStrings(semver.NPM))}
	run.Cov["states"] = states
	run.Cov["transitions"] = transitions
	run.Cov["traces_validated_against_impl"] = transitions
	run.Cov["evaluations"] = transitions
	run.Cov["distinct_nontrivial"] = nontrivial
	run.Cov["per_system"] = perSys
	run.Cov["explanation"] = "states = parsed domain elements; transitions = real Compare calls; every call runs the implementation itself, so every explored behaviour is validated against it"
	run.Assumptions = []string{"domains are the finite products of DESIGN §6.1-6.4; versions outside the alphabets are not covered", "Maven restricted to the dash-form domain the property states"}
	run.Finish()
}

// c01FindTriples turns certificate failures into concrete triples.
func c01FindTriples(run *core.Run, d *cmpDomain, bad [][2]int) int {
	n := len(d.vers)
	found := 0
	seen := map[string]bool{}
	try := func(i, j, k int) {
		ok, obs := tripleHolds(d.sys, d.strs[i], d.strs[j], d.strs[k])
		if !ok {
			w := core.Join("triple", d.sys.String(), d.strs[i], d.strs[j], d.strs[k])
			if !seen[w] {
				seen[w] = true
				found++
				run.Fail(w, obs)
			}
		}
	}
	for _, p := range bad {
		for k := 0; k < n && found < 200; k++ {
			try(p[0], p[1], k)
		}
	}
	if found == 0 {
		// full scan (only reached on failure)
		for i := 0; i < n && found < 20; i++ {
			for j := 0; j < n; j++ {
				if d.m[i][j] > 0 {
					continue
				}
				for k := 0; k < n; k++ {
					if d.m[j][k] <= 0 && d.m[i][k] > 0 {
						try(i, j, k)
					}
				}
			}
		}
	}
	return found
}

func c01SortSubdomain(d *cmpDomain) []int {
	// 12 elements spread over the ranking, forcing at least two equal pairs.
	n := len(d.vers)
	byRank := map[int][]int{}
	maxr := 0
	for i, r := range d.rank {
		byRank[r] = append(byRank[r], i)
		if r > maxr {
			maxr = r
		}
	}
	var pick []int
	// classes with >= 2 members first (equal elements), two of them
	eq := 0
	for r := 0; r <= maxr && eq < 3; r++ {
		if g := byRank[r]; len(g) >= 2 && r%7 == 3 || len(byRank[r]) >= 2 && r == maxr/2 {
			g := byRank[r]
			pick = append(pick, g[0], g[len(g)-1])
			eq++
		}
	}
	for k := 0; len(pick) < 12 && k < n; k++ {
		i := (k*n/12 + k) % n
		dup := false
		for _, p := range pick {
			if p == i {
				dup = true
			}
		}
		if !dup {
			pick = append(pick, i)
		}
	}
	if len(pick) > 12 {
		pick = pick[:12]
	}
	return pick
}

func c01Sorting(run *core.Run, d *cmpDomain, rsys resolve.System, quick bool) int {
	pick := c01SortSubdomain(d)
	maxSize := 5
	if quick {
		maxSize = 4
	}
	var subsets [][]int
	var rec func(start int, cur []int)
	rec = func(start int, cur []int) {
		if len(cur) >= 2 {
			subsets = append(subsets, append([]int(nil), cur...))
		}
		if len(cur) == maxSize {
			return
		}
		for i := start; i < len(pick); i++ {
			rec(i+1, append(cur, pick[i]))
		}
	}
	rec(0, nil)
	var total int64
	core.ParFor(len(subsets), func(si int) {
		sub := subsets[si]
		var ref []int
		permute(len(sub), func(p []int) {
			strs := make([]string, len(sub))
			for k, pi := range p {
				strs[k] = d.strs[sub[pi]]
			}
			classes := sortClasses(d, rsys, strs)
			atomic.AddInt64(&total, 1)
			if ref == nil {
				ref = classes
				return
			}
			if !equalInts(ref, classes) {
				run.Fail(core.Join(append([]string{"sort", d.sys.String()}, strs...)...), fmt.Sprintf("class sequence %v differs from %v obtained for another input order", classes, ref))
			}
		})
	})
	return int(total)
}

func sortClasses(d *cmpDomain, rsys resolve.System, strs []string) []int {
	vs := make([]resolve.Version, len(strs))
	for i, s := range strs {
		vs[i] = resolve.Version{VersionKey: resolve.VersionKey{PackageKey: resolve.PackageKey{System: rsys, Name: "p"}, VersionType: resolve.Concrete, Version: s}}
	}
	resolve.SortVersions(vs)
	index := map[string]int{}
	for i, s := range d.strs {
		index[s] = i
	}
	out := make([]int, len(vs))
	for i, v := range vs {
		out[i] = d.rank[index[v.Version]]
	}
	return out
}

func equalInts(a, b []int) bool {
	if len(a) != len(b) {
		return false
	}
	for i := range a {
		if a[i] != b[i] {
			return false
		}
	}
	return true
}

// permute calls f with every permutation of 0..n-1 (Heap's algorithm, f must not retain p).
func permute(n int, f func(p []int)) {
	p := make([]int, n)
	for i := range p {
		p[i] = i
	}
	c := make([]int, n)
	f(p)
	for i := 0; i < n; {
		if c[i] < i {
			if i%2 == 0 {
				p[0], p[i] = p[i], p[0]
			} else {
				p[c[i]], p[i] = p[i], p[c[i]]
			}
			f(p)
			c[i]++
			i = 0
		} else {
			c[i] = 0
			i++
		}
	}
}

func c01Replay(w string) (bool, string) {
	p := core.Split(w)
	sys, ok := dom.SysByName(p[1])
	if !ok {
		return true, "unknown system"
	}
	switch p[0] {
	case "triple":
		return tripleHolds(sys, p[2], p[3], p[4])
	case "hist":
		a, _ := sys.Parse(p[2])
		b, _ := sys.Parse(p[3])
		x := core.Sign(a.Compare(b))
		y := core.Sign(sys.Compare(p[2], p[3]))
		return x == y, fmt.Sprintf("Version.Compare=%d System.Compare=%d", x, y)
	case "xsort":
		fresh, err1 := c01HistoryChild("-", p[1])
		after, err2 := c01HistoryChild(p[2], p[1])
		if err1 != nil || err2 != nil {
			return true, "child process failed"
		}
		_, fs, _ := strings.Cut(fresh, "|")
		_, as, _ := strings.Cut(after, "|")
		return fs == as, fmt.Sprintf("fresh [%s], after %s [%s]", fs, p[2], as)
	case "xhist":
		fresh, err1 := c01HistoryChild("-", p[1], p[3], p[4])
		after, err2 := c01HistoryChild(p[2], p[1], p[3], p[4])
		if err1 != nil || err2 != nil {
			return true, "child process failed"
		}
		return fresh == after, fmt.Sprintf("pair matrix fresh %s, after %s: %s", fresh, p[2], after)
	case "build":
		c := sys.Compare(p[2], p[3])
		return c == 0, fmt.Sprintf("Compare(%s,%s)=%d", p[2], p[3], c)
	case "sort":
		rsys, _ := resolveSystem(sys)
		strs := p[2:]
		d, _ := parseDomain(sys, strs)
		d.fill()
		if len(d.certificate()) != 0 {
			return false, "not a preorder on the listed versions"
		}
		var ref []int
		held := true
		permute(len(strs), func(pp []int) {
			ss := make([]string, len(strs))
			for k, pi := range pp {
				ss[k] = strs[pi]
			}
			c := sortClasses(d, rsys, ss)
			if ref == nil {
				ref = c
			} else if !equalInts(ref, c) {
				held = false
			}
		})
		return held, fmt.Sprintf("reference class sequence %v", ref)
	}
	return true, "unknown witness kind"
}

// ---------------------------------------------------------------------------------------------
// cross-system history clause: the order a system computes must not depend on which other system's versions
// the process has parsed and compared before. Each history runs in a fresh child process.

// c01HistoryStrings is the shared string list (systems that need a prefix add it): prerelease identifiers around
// the int32 and int64 limits, where systems classify "number or word" differently, plus ordinary shapes.
func c01HistoryStrings(sys semver.System) []string {
	nums := []string{"0", "1", "10", "2147483647", "2147483648", "3000000001", "20000000001", "9223372036854775806", "9223372036854775807", "9223372036854775808", "99999999999999999999", "1a", "a", "alpha", "A"}
	var out []string
	for _, core := range []string{"1.0.0", "1.2.3"} {
		out = append(out, core)
		for _, n := range nums {
			out = append(out, core+"-"+n, core+"-ci."+n, core+"-"+n+".1")
		}
	}
	out = append(out, "1.0.0+b", "2.0.0", "0.0.1-0", "1.0.0-alpha.beta", "1.0.0-rc.1")
	if sys == semver.Go {
		for i := range out {
			out[i] = "v" + out[i]
		}
	}
	return out
}

var c01HistorySystems = []semver.System{semver.DefaultSystem, semver.NPM, semver.Cargo, semver.Go, semver.NuGet, semver.Composer, semver.PyPI, semver.RubyGems, semver.Maven}

func c01HistoryMatrix(sys semver.System, only []string) string {
	strs := c01HistoryStrings(sys)
	if len(only) > 0 {
		strs = only
	}
	var b strings.Builder
	for _, x := range strs {
		vx, ex := sys.Parse(x)
		for _, y := range strs {
			vy, ey := sys.Parse(y)
			switch {
			case ex != nil || ey != nil:
				b.WriteByte('x')
			default:
				b.WriteByte("<=>"[core.Sign(vx.Compare(vy))+1])
			}
		}
	}
	return b.String()
}

// C01HistoryWorker: args = first system ("-" for none), second system, optional pair restricting both passes;
// prints the second system's matrix.
func C01HistoryWorker(args []string) {
	var only []string
	if len(args) >= 4 {
		only = args[2:4]
	}
	if strings.HasPrefix(args[0], "~") {
		// interleaved string-API history: A.Compare(x, y) immediately before B.Compare(x, y), for every pair
		a, _ := dom.SysByName(args[0][1:])
		b, _ := dom.SysByName(args[1])
		as, bs := c01HistoryStrings(a), c01HistoryStrings(b)
		if len(only) > 0 {
			bs = only
			as = nil
			for _, s := range only {
				s = strings.TrimPrefix(s, "v")
				if a == semver.Go {
					s = "v" + s
				}
				as = append(as, s)
			}
		}
		var out strings.Builder
		for i := range bs {
			for j := range bs {
				a.Compare(as[i], as[j])
				if _, e1 := b.Parse(bs[i]); e1 != nil {
					out.WriteByte('x')
					continue
				}
				if _, e2 := b.Parse(bs[j]); e2 != nil {
					out.WriteByte('x')
					continue
				}
				a.Compare(as[j], as[i])
				out.WriteByte("<=>"[core.Sign(b.Compare(bs[i], bs[j]))+1])
			}
		}
		if len(only) == 0 {
			fmt.Println(out.String() + "|" + c01HistorySort(b))
		} else {
			fmt.Println(out.String())
		}
		return
	}
	if args[0] != "-" {
		a, _ := dom.SysByName(args[0])
		first := only
		if len(only) > 0 && (a == semver.Go) != strings.HasPrefix(only[0], "v") {
			// the same identifiers in the first system's spelling
			first = nil
			for _, s := range only {
				s = strings.TrimPrefix(s, "v")
				if a == semver.Go {
					s = "v" + s
				}
				first = append(first, s)
			}
		}
		c01HistoryMatrix(a, first)
	}
	b, _ := dom.SysByName(args[1])
	out := c01HistoryMatrix(b, only)
	if len(only) == 0 {
		// the sorting entry point on a list of spellings several systems accept (and order differently)
		if args[0] != "-" {
			a, _ := dom.SysByName(args[0])
			c01HistorySort(a)
		}
		out += "|" + c01HistorySort(b)
	}
	fmt.Println(out)
}

// c01HistorySort sorts the shared spelling list with resolve.SortVersions in the system (if the resolvers know it).
func c01HistorySort(sys semver.System) string {
	rsys, ok := resolveSystem(sys)
	if !ok {
		return ""
	}
	var vs []resolve.Version
	for _, s := range []string{"2.0.dev1", "2.0a1", "2.0", "2.0.post1", "1.0", "1.0.0", "1.0.post1", "1.0rc1", "1.0-rc1", "1.0-1", "1.0.1", "2.0.0-rc.1", "2.0.0"} {
		vs = append(vs, resolve.Version{VersionKey: resolve.VersionKey{PackageKey: resolve.PackageKey{System: rsys, Name: "p"}, VersionType: resolve.Concrete, Version: s}})
	}
	resolve.SortVersions(vs)
	var out []string
	for _, v := range vs {
		out = append(out, v.Version)
	}
	return strings.Join(out, ",")
}

func c01HistoryChild(a, b string, pair ...string) (string, error) {
	out, err := exec.Command(os.Args[0], append([]string{"C01", "--history", a, b}, pair...)...).Output()
	return strings.TrimSpace(string(out)), err
}

// c01History runs every ordered pair of systems as a two-step history.
func c01History(run *core.Run) (histories, compares int64) {
	type job struct {
		a, b        semver.System
		interleaved bool
	}
	base := map[semver.System]string{}
	var jobs []job
	for _, b := range c01HistorySystems {
		m, err := c01HistoryChild("-", b.String())
		if err != nil || m == "" {
			core.Harness("C01 history baseline %v: %v", b, err)
		}
		base[b] = m
		for _, a := range c01HistorySystems {
			if a != b {
				jobs = append(jobs, job{a, b, false}, job{a, b, true})
			}
		}
	}
	var hs, cs int64
	core.ParFor(len(jobs), func(i int) {
		j := jobs[i]
		first := j.a.String()
		if j.interleaved {
			first = "~" + first
		}
		m, err := c01HistoryChild(first, j.b.String())
		if err != nil {
			core.Harness("C01 history %v then %v: %v", first, j.b, err)
		}
		atomic.AddInt64(&hs, 1)
		atomic.AddInt64(&cs, int64(len(m)))
		if m == base[j.b] {
			return
		}
		strs := c01HistoryStrings(j.b)
		n := len(strs)
		if mm, bm, _ := strings.Cut(m, "|"); true {
			bb, bs, _ := strings.Cut(base[j.b], "|")
			if mm == bb && bm != bs {
				run.Fail(core.Join("xsort", j.b.String(), first), fmt.Sprintf("resolve.SortVersions in %v orders the shared spellings as [%s] in a fresh process and as [%s] after the same list was sorted in %v", j.b, bs, bm, first))
				return
			}
		}
		for k := 0; k < len(m) && k < len(base[j.b]) && k < n*n; k++ {
			if m[k] != base[j.b][k] {
				x, y := strs[k/n], strs[k%n]
				run.Fail(core.Join("xhist", j.b.String(), first, x, y), fmt.Sprintf("%v.Compare(%s, %s) is %c in a fresh process and %c after the same identifiers were compared in %v", j.b, x, y, base[j.b][k], m[k], first))
				break
			}
		}
	})
	return hs, cs
}
