package props

import (
	"fmt"
	"regexp"
	"sort"
	"strconv"
	"strings"
	"sync"
	"sync/atomic"
	"time"

	"deps.dev/util/resolve"
	"deps.dev/util/resolve/dep"
	npmres "deps.dev/util/resolve/npm"
	"verif/harness/core"
	"verif/harness/univ"
)

var (
	npmHookOnce  sync.Once
	npmHookTrees sync.Map // root version string (carrying a unique +tag) -> *VerifTreeNode
	npmHookSeq   atomic.Int64
	npmHookMu    sync.Mutex
	npmTagRE     = regexp.MustCompile(`\+t[0-9]+`)
)

// npmResolveWithTree resolves root in u and captures the install tree through the verif hook. The hook is a
// package-level variable, so concurrent resolutions are told apart by a unique build-metadata tag appended to
// the root's version string (the root's own version never takes part in matching: nothing requires the root).
func npmResolveWithTree(u univ.Universe, root [2]string) (univ.Universe, [2]string, *resolve.Graph, *npmres.VerifTreeNode, error) {
	npmHookOnce.Do(func() {
		npmres.VerifTreeHook = func(t *npmres.VerifTreeNode) { npmHookTrees.Store(t.Version.Version, t) }
	})
	if root[0] != "r" {
		// the root is a version of a package that requirements may point at: its version string must stay as it is;
		// such resolutions are serialised instead
		npmHookMu.Lock()
		defer npmHookMu.Unlock()
		lc := u.Client(nil)
		g, err := bounded(npmres.NewResolver(lc)).Resolve(ctxBG, u.VK(root[0], root[1]))
		var tree *npmres.VerifTreeNode
		if t, ok := npmHookTrees.LoadAndDelete(root[1]); ok {
			tree = t.(*npmres.VerifTreeNode)
		}
		return u, root, g, tree, err
	}
	tagged := root[1] + "+t" + strconv.FormatInt(npmHookSeq.Add(1), 10)
	u2 := u.Clone()
	for i := range u2.Vers {
		if u2.Vers[i].Pkg == root[0] && u2.Vers[i].Ver == root[1] {
			u2.Vers[i].Ver = tagged
		}
	}
	lc := u2.Client(nil)
	g, err := bounded(npmres.NewResolver(lc)).Resolve(ctxBG, u2.VK(root[0], tagged))
	var tree *npmres.VerifTreeNode
	if t, ok := npmHookTrees.LoadAndDelete(tagged); ok {
		tree = t.(*npmres.VerifTreeNode)
	}
	return u2, [2]string{root[0], tagged}, g, tree, err
}

// npmSatisfies is the hand-table oracle: does version (record) satisfy requirement text?
func npmSatisfies(u univ.Universe, pkg, req, ver string) bool {
	if t, ok := univ.NPMSat[req]; ok {
		return t[ver]
	}
	// dist-tag
	if v, ok := u.Find(pkg, ver); ok {
		for _, t := range strings.Split(v.Tags, ",") {
			if t != "" && t == req {
				return true
			}
		}
	}
	return false
}

// npmExpectedPick computes the version a fresh install must choose.
func npmExpectedPick(u univ.Universe, pkg, req string) (string, bool) {
	var cands []univ.Ver
	for _, v := range u.Vers {
		if v.Pkg == pkg && npmSatisfies(u, pkg, req, v.Ver) {
			cands = append(cands, v)
		}
	}
	if len(cands) == 0 {
		return "", false
	}
	sort.Slice(cands, func(i, j int) bool { return univ.NPMOrder[cands[i].Ver] < univ.NPMOrder[cands[j].Ver] })
	for _, c := range cands {
		if strings.Contains(","+c.Tags+",", ",latest,") {
			return c.Ver, true
		}
	}
	for i := len(cands) - 1; i >= 0; i-- {
		if !cands[i].Blocked {
			return cands[i].Ver, true
		}
	}
	return cands[len(cands)-1].Ver, true
}

type c06Stats struct {
	nested, errorsSeen, aliasEdges, freshInstalls, reuses int64
}

// c06Check resolves root in u and checks every clause; returns failures "clause: text".
func c06Check(u univ.Universe, root [2]string, st *c06Stats) (fails []string, outcome string) {
	u, root, g, tree, err := npmResolveWithTree(u, root)
	if err != nil {
		return nil, "resolve-error"
	}
	fail := func(clause, msg string) {
		fails = append(fails, npmTagRE.ReplaceAllString(clause+": "+msg+"\n  graph: "+dumpGraphFull(g), ""))
	}
	// a requirement listed twice (plainly and under an alias) is two declarations: spell them out
	for _, v := range u.Vers {
		for _, r := range v.Reqs {
			if r.TwinAlias {
				x := univ.Universe{Sys: u.Sys}
				for _, w := range u.Vers {
					var rs []univ.Req
					for _, q := range w.Reqs {
						rs = append(rs, q.Expanded()...)
					}
					w.Reqs = rs
					x.Vers = append(x.Vers, w)
				}
				u = x
				break
			}
		}
	}
	n := len(g.Nodes)
	out := make([][]resolve.Edge, n)
	for _, e := range g.Edges {
		out[e.From] = append(out[e.From], e)
	}
	hasBundle := false
	// install-folder names taken by aliases anywhere in the universe: npm looks a dependency up by folder name and
	// checks only the version of what it finds (Arborist depValid), so a requirement on package c may legitimately be
	// served by another package installed under an alias spelled c
	aliasKeys := map[string]bool{}
	for _, v := range u.Vers {
		for _, r := range v.Reqs {
			if r.Alias != "" {
				aliasKeys[r.Alias] = true
			}
		}
	}
	// declOf finds the declaration an edge stands for
	declOf := func(v univ.Ver, e resolve.Edge) *univ.Req {
		to := g.Nodes[e.To].Version
		alias, _ := e.Type.GetAttr(dep.KnownAs)
		var decl *univ.Req
		for k := range v.Reqs {
			r := &v.Reqs[k]
			if (r.Pkg == to.Name || alias != "" || aliasKeys[r.Pkg]) && r.Ver == e.Requirement && r.Alias == alias && !r.Dev && r.Scope != "peer" {
				if decl == nil || r.Pkg == to.Name {
					decl = r
				}
			}
		}
		return decl
	}
	for i, nd := range g.Nodes {
		v, ok := u.Find(nd.Version.Name, nd.Version.Version)
		if !ok {
			fail("node", fmt.Sprintf("node %d %s@%s is not a version of the universe", i, nd.Version.Name, nd.Version.Version))
			continue
		}
		if len(nd.Errors) > 0 && st != nil {
			atomic.AddInt64(&st.errorsSeen, 1)
		}
		// every non-dev, non-peer requirement is an edge or a node error
		for _, r := range v.Reqs {
			if r.Dev || r.Scope == "peer" {
				continue
			}
			found := false
			for _, e := range out[i] {
				alias, _ := e.Type.GetAttr(dep.KnownAs)
				// an aliased requirement is looked up by its alias: like npm (Arborist's depValid checks only the
				// version of whatever is installed under that name) the package behind the alias may differ
				if e.Requirement == r.Ver && alias == r.Alias && (r.Alias != "" || g.Nodes[e.To].Version.Name == r.Pkg || aliasKeys[r.Pkg]) {
					found = true
				}
			}
			for _, ne := range nd.Errors {
				if ne.Req.Name == r.Pkg && ne.Req.Version == r.Ver {
					found = true
				}
			}
			if !found {
				fail("requirement", fmt.Sprintf("%s@%s requires %s@%q (alias %q) but there is neither an edge nor a node error for it", v.Pkg, v.Ver, r.Pkg, r.Ver, r.Alias))
			}
		}
		// every edge satisfies its requirement and comes from a declared requirement
		for _, e := range out[i] {
			to := g.Nodes[e.To].Version
			alias, _ := e.Type.GetAttr(dep.KnownAs)
			decl := declOf(v, e)
			if decl == nil {
				fail("edge", fmt.Sprintf("edge %s@%s -> %s@%s (%q) corresponds to no non-dev, non-peer requirement of the dependent", v.Pkg, v.Ver, to.Name, to.Version, e.Requirement))
				continue
			}
			if alias != "" && st != nil {
				atomic.AddInt64(&st.aliasEdges, 1)
			}
			sel := e.Type.HasAttr(dep.Selector)
			if !npmSatisfies(u, to.Name, e.Requirement, to.Version) && !(e.Requirement == "*" && !sel) {
				fail("satisfy", fmt.Sprintf("edge %s@%s -> %s@%s: the target does not satisfy %q", v.Pkg, v.Ver, to.Name, to.Version, e.Requirement))
			}
			if sel {
				if st != nil {
					atomic.AddInt64(&st.freshInstalls, 1)
				}
				if to.Name != decl.Pkg {
					fail("pick", fmt.Sprintf("fresh install for %s@%q installed package %s", decl.Pkg, e.Requirement, to.Name))
				}
				if want, ok := npmExpectedPick(u, to.Name, e.Requirement); ok && univ.NPMOrder[want] != univ.NPMOrder[to.Version] {
					fail("pick", fmt.Sprintf("fresh install for %s@%q chose %s, expected %s (latest tag if it satisfies, else highest non-deprecated, else highest)", to.Name, e.Requirement, to.Version, want))
				}
			} else if st != nil {
				atomic.AddInt64(&st.reuses, 1)
			}
		}
	}
	// reachability
	seen := make([]bool, n)
	stack := []int{0}
	seen[0] = true
	for len(stack) > 0 {
		x := stack[len(stack)-1]
		stack = stack[:len(stack)-1]
		for _, e := range out[x] {
			if !seen[e.To] {
				seen[e.To] = true
				stack = append(stack, int(e.To))
			}
		}
	}
	for i, s := range seen {
		if !s {
			fail("reach", fmt.Sprintf("node %d %s@%s is not reachable from the root", i, g.Nodes[i].Version.Name, g.Nodes[i].Version.Version))
		}
	}
	// install tree (universes without bundled packages)
	if tree == nil {
		fail("tree", "the resolver did not report its install tree")
		return fails, "no-tree"
	}
	parent := map[*npmres.VerifTreeNode]*npmres.VerifTreeNode{}
	byID := map[resolve.NodeID]*npmres.VerifTreeNode{}
	depth := 0
	var walk func(t *npmres.VerifTreeNode, d int)
	walk = func(t *npmres.VerifTreeNode, d int) {
		if d > depth {
			depth = d
		}
		if t.Bundled {
			hasBundle = true
		}
		if t.ID != 0 || d == 0 {
			if other, dup := byID[t.ID]; dup && other != t {
				fail("tree", fmt.Sprintf("two tree nodes share graph node id %d", t.ID))
			}
			byID[t.ID] = t
		}
		names := map[string]bool{}
		for _, c := range t.Children {
			if names[c.Name] {
				fail("tree-dup", fmt.Sprintf("directory of %s@%s holds two packages named %s", t.Version.Name, t.Version.Version, c.Name))
			}
			names[c.Name] = true
			parent[c] = t
			walk(c, d+1)
		}
	}
	walk(tree, 0)
	if depth >= 2 && st != nil {
		atomic.AddInt64(&st.nested, 1)
	}
	if !hasBundle {
		for i := range g.Nodes {
			t := byID[resolve.NodeID(i)]
			if t == nil {
				fail("tree", fmt.Sprintf("graph node %d has no tree node", i))
				continue
			}
			for _, e := range out[i] {
				// folder names the edge may be looked up under: the alias, or the declared dependency name(s) the edge
				// can stand for (with aliases spelled like real packages several declarations share a requirement text)
				var names []string
				if alias, ok := e.Type.GetAttr(dep.KnownAs); ok && alias != "" {
					names = []string{alias}
				} else {
					names = []string{g.Nodes[e.To].Version.Name}
					if fv, ok := u.Find(g.Nodes[i].Version.Name, g.Nodes[i].Version.Version); ok {
						for _, r := range fv.Reqs {
							if r.Alias == "" && r.Ver == e.Requirement && !r.Dev && r.Scope != "peer" && aliasKeys[r.Pkg] && r.Pkg != names[0] {
								names = append(names, r.Pkg)
							}
						}
					}
				}
				ok := false
				var firstFound *npmres.VerifTreeNode
				for _, lookup := range names {
					var found *npmres.VerifTreeNode
					for a := t; a != nil && found == nil; a = parent[a] {
						for _, c := range a.Children {
							if c.Name == lookup {
								found = c
								break
							}
						}
					}
					if found != nil && firstFound == nil {
						firstFound = found
					}
					if found != nil && found.ID == e.To {
						ok = true
					}
				}
				switch {
				case ok:
				case firstFound == nil:
					fail("lookup", fmt.Sprintf("Node's lookup of %q from %s@%s finds nothing, the edge points to %s@%s", names, g.Nodes[i].Version.Name, g.Nodes[i].Version.Version, g.Nodes[e.To].Version.Name, g.Nodes[e.To].Version.Version))
				default:
					fail("lookup", fmt.Sprintf("Node's lookup of %q from %s@%s lands on %s@%s (node %d), the edge points to %s@%s (node %d)", names, g.Nodes[i].Version.Name, g.Nodes[i].Version.Version, firstFound.Version.Name, firstFound.Version.Version, firstFound.ID, g.Nodes[e.To].Version.Name, g.Nodes[e.To].Version.Version, e.To))
				}
			}
		}
	}
	return fails, fmt.Sprintf("nodes=%d depth=%d", n, depth)
}

// C06 decides the npm installation property.
func C06(tier string) {
	run := core.NewRun("C06", tier, c06Replay)
	quick := tier == "quick"
	dev := 4
	if quick {
		dev = 3
		run.SetBudget(120 * time.Second)
	} else {
		run.SetBudget(2400 * time.Second)
	}
	run.Cov["rule"] = "all npm universes within the deviation bound from the empty base and (one deviation fewer) from the diamond-conflict template of DESIGN §6.6(a) (requirement slots over 7 requirement texts incl. dist-tag, x-range, prerelease range; decorations: optional/dev/peer/bundle scope, alias, deprecated version, latest tag on the lowest version), every version with requirements as root; invariants from the harness's own universe model and hand satisfaction table: edge satisfies requirement, every non-dev non-peer requirement is an edge or node error, reachability, fresh-install choice, and on the install tree reported through the verif hook: unique names per directory, Node's walk-up lookup lands on the edge's target. Non-trivial = the resolution has >= 3 nodes."
	var universes, resolves, nontrivial int64
	st := &c06Stats{}
	per := map[string]any{}
	for _, sp := range univ.NPMSpaces() {
		d := dev
		if sp.Base != "empty" {
			d--
		}
		var batch []univ.Universe
		var u0, r0, nt0 int64
		flush := func() {
			core.ParFor(len(batch), func(i int) {
				u := batch[i]
				_, hot := c05Roots(u)
				for _, root := range hot {
					fails, outcome := c06Check(u, root, st)
					atomic.AddInt64(&r0, 1)
					if strings.HasPrefix(outcome, "nodes=") && !strings.HasPrefix(outcome, "nodes=1 ") && !strings.HasPrefix(outcome, "nodes=2 ") {
						atomic.AddInt64(&nt0, 1)
					}
					run.Outcome(outcome)
					for _, f := range fails {
						clause, _, _ := strings.Cut(f, ":")
						run.Fail(core.Join("npm", clause, root[0]+"@"+root[1], u.Encode()), f)
					}
				}
			})
			batch = batch[:0]
		}
		stopped := false
		univ.Enumerate(sp.Slots, d, func(picks []univ.Pick) {
			if stopped {
				return
			}
			u, ok := sp.Build(picks)
			if !ok || len(u.Vers[0].Reqs) == 0 {
				return
			}
			u0++
			batch = append(batch, u)
			if len(batch) >= 8192 {
				flush()
				if run.OutOfTime("C06 "+sp.Base) || run.Violations() > 500 {
					stopped = true
				}
			}
		})
		flush()
		if stopped {
			run.Cap("npm/" + sp.Base + ": enumeration stopped early")
		}
		universes += u0
		resolves += r0
		nontrivial += nt0
		per[sp.Base] = map[string]any{"universes": u0, "resolutions": r0, "deviation_bound": d, "completed": !stopped}
	}
	run.Cov["states"] = universes
	run.Cov["transitions"] = resolves
	run.Cov["traces_validated_against_impl"] = resolves
	run.Cov["evaluations"] = resolves
	run.Cov["distinct_nontrivial"] = nontrivial
	run.Cov["per_base"] = per
	run.Cov["non_terminating_resolutions"] = resolveCutReport()
	run.Cov["mechanisms_exercised"] = map[string]int64{"resolutions_with_nested_installs": st.nested, "nodes_with_errors": st.errorsSeen, "alias_edges": st.aliasEdges, "fresh_installs": st.freshInstalls, "reused_installs": st.reuses}
	run.Sample(map[string]any{"universe": `{"sys":"NPM","vers":[{"p":"r","v":"1.0.0","reqs":[{"p":"a","v":"^1.0.0"},{"p":"b","v":"^1.0.0"}]}, ...]}`, "root": "r@1.0.0"})
	run.Assumptions = []string{"universes beyond the deviation bound (3 packages x 2-4 versions) are not covered; derived (bundled) packages are exercised by C18, not here", "satisfaction and the expected pick come from hand tables in the harness, independent of util/semver"}
	run.Finish()
}

func c06Replay(w string) (bool, string) {
	p := core.Split(w)
	if p[0] != "npm" {
		return true, "unknown"
	}
	u, err := univ.Decode(p[3])
	if err != nil {
		return true, "bad universe"
	}
	n, v, _ := strings.Cut(p[2], "@")
	fails, _ := c06Check(u, [2]string{n, v}, nil)
	var rel []string
	for _, f := range fails {
		if strings.HasPrefix(f, p[1]+":") {
			rel = append(rel, f)
		}
	}
	sort.Strings(rel)
	return len(rel) == 0, strings.Join(rel, "\n")
}
