package props

import (
	"fmt"
	"sort"
	"strings"
	"sync/atomic"
	"time"

	"deps.dev/util/resolve"
	"deps.dev/util/resolve/dep"
	mavenres "deps.dev/util/resolve/maven"
	"verif/harness/core"
	"verif/harness/univ"
)

type mvnKey struct{ name, classifier, typ string }

func mvnKeyOfReq(r univ.Req) mvnKey {
	t := r.AType
	if t == "jar" {
		t = ""
	}
	return mvnKey{r.Pkg, r.Class, t}
}

func mvnKeyOfEdge(g *resolve.Graph, e resolve.Edge) mvnKey {
	c, _ := e.Type.GetAttr(dep.MavenClassifier)
	t, _ := e.Type.GetAttr(dep.MavenArtifactType)
	if t == "jar" {
		t = ""
	}
	return mvnKey{g.Nodes[e.To].Version.Name, c, t}
}

func mvnExcluded(excl map[string]bool, name string) bool {
	if excl["*:*"] || excl[name] {
		return true
	}
	g, a, _ := strings.Cut(name, ":")
	return excl[g+":*"] || excl["*:"+a]
}

// c07Reuse resolves every root on one resolver, forwards and backwards, and compares with fresh resolutions.
func c07Reuse(u univ.Universe, roots [][2]string) (fails [][2]string) {
	fresh := map[[2]string]string{}
	for _, r := range roots {
		g, err := mavenres.NewResolver(u.Client(nil)).Resolve(ctxBG, u.VK(r[0], r[1]))
		fresh[r] = graphDump(g, err)
	}
	for _, rev := range []bool{false, true} {
		res := mavenres.NewResolver(u.Client(nil))
		for k := range roots {
			r := roots[k]
			if rev {
				r = roots[len(roots)-1-k]
			}
			g, err := res.Resolve(ctxBG, u.VK(r[0], r[1]))
			if d := graphDump(g, err); d != fresh[r] {
				fails = append(fails, [2]string{r[0] + "@" + r[1], fmt.Sprintf("reuse: %s@%s resolved on a resolver that has resolved other roots of the universe gives %s, a fresh resolver gives %s", r[0], r[1], d, fresh[r])})
				return
			}
		}
	}
	return nil
}

type c07Stats struct{ retries, ranges, exclusions, managed, errors, multiNode, unfollowed, nearestJudged int64 }

// c07Check resolves root in u with the Maven resolver and checks the mediation invariants.
func c07Check(u univ.Universe, root [2]string, st *c07Stats) (fails []string, outcome string) {
	lc := u.Client(nil)
	g, err := mavenres.NewResolver(lc).Resolve(ctxBG, u.VK(root[0], root[1]))
	if err != nil {
		// "the incompatible-requirements error is reported instead": an error return is a report, not a graph
		if st != nil {
			atomic.AddInt64(&st.errors, 1)
		}
		return nil, "error:" + firstLineOf(err.Error())
	}
	fail := func(clause, msg string) { fails = append(fails, clause+": "+msg+"\n  graph: "+dumpGraphFull(g)) }
	n := len(g.Nodes)
	out := make([][]resolve.Edge, n)
	for _, e := range g.Edges {
		out[e.From] = append(out[e.From], e)
	}
	if n >= 3 && st != nil {
		atomic.AddInt64(&st.multiNode, 1)
	}
	// I1: at most one version per artifact key
	sel := map[mvnKey]string{}
	for _, e := range g.Edges {
		k := mvnKeyOfEdge(g, e)
		v := g.Nodes[e.To].Version.Version
		if old, ok := sel[k]; ok && old != v {
			fail("unique", fmt.Sprintf("artifact %v occurs with versions %s and %s", k, old, v))
		}
		sel[k] = v
		// I2: range edges point inside the range
		if sat, hard := univ.MavenHardSat[e.Requirement]; hard {
			if st != nil {
				atomic.AddInt64(&st.ranges, 1)
			}
			if !sat[v] {
				fail("range", fmt.Sprintf("edge %s -> %s@%s: the target is outside %s", g.Nodes[e.From].Version.Name, k.name, v, e.Requirement))
			}
		}
		// I6: test/optional/provided edges only leave the root
		if e.From != 0 {
			sc, _ := e.Type.GetAttr(dep.Scope)
			if e.Type.HasAttr(dep.Test) || e.Type.HasAttr(dep.Opt) || sc == "provided" {
				fail("rootonly", fmt.Sprintf("edge from non-root %s@%s has type %s", g.Nodes[e.From].Version.Name, g.Nodes[e.From].Version.Version, e.Type.String()))
			}
		}
	}
	// nodes must be versions of the universe; one node per version key
	nodeOf := map[[2]string]int{}
	for i, nd := range g.Nodes {
		key := [2]string{nd.Version.Name, nd.Version.Version}
		if _, ok := u.Find(key[0], key[1]); !ok {
			fail("node", fmt.Sprintf("node %s@%s is not in the universe", key[0], key[1]))
		}
		if j, dup := nodeOf[key]; dup {
			fail("node", fmt.Sprintf("nodes %d and %d are both %s@%s", j, i, key[0], key[1]))
		}
		nodeOf[key] = i
	}
	// management table of the root
	rootRec, _ := u.Find(root[0], root[1])
	mgmt := map[mvnKey]string{}
	for _, r := range rootRec.Reqs {
		if r.Origin == "management" {
			mgmt[mvnKeyOfReq(r)] = r.Ver
		}
	}
	// hard requirements anywhere in the universe, per artifact key (incl. managed versions, which are soft here)
	hardAnywhere := map[mvnKey]bool{}
	for _, v := range u.Vers {
		for _, r := range v.Reqs {
			if _, hard := univ.MavenHardSat[r.Ver]; hard {
				hardAnywhere[mvnKeyOfReq(r)] = true
			}
		}
	}
	// breadth-first walk over the declarations, guided by the versions the graph selected
	type item struct {
		node  int
		excl  map[string]bool
		first bool
	}
	firstSoft := map[mvnKey]string{}
	visited := map[mvnKey]bool{{root[0], "", ""}: true}
	expanded := map[int]bool{0: true}
	queue := []item{{0, nil, true}}
	for len(queue) > 0 {
		it := queue[0]
		queue = queue[1:]
		nd := g.Nodes[it.node].Version
		rec, _ := u.Find(nd.Name, nd.Version)
		for _, r := range rec.Reqs {
			if r.Origin != "" {
				continue
			}
			if !it.first && (r.Test || r.Opt || r.Scope == "provided") {
				continue
			}
			k := mvnKeyOfReq(r)
			if mvnExcluded(it.excl, r.Pkg) {
				if st != nil {
					atomic.AddInt64(&st.exclusions, 1)
				}
				// I5: an excluded artifact is not reached through this path: no edge for it from this node
				for _, e := range out[it.node] {
					if mvnKeyOfEdge(g, e) == k {
						fail("exclusion", fmt.Sprintf("%s@%s declares %s which is excluded on this path, yet the node has an edge to it", nd.Name, nd.Version, r.Pkg))
					}
				}
				continue
			}
			eff := r.Ver
			if m, ok := mgmt[k]; ok && !it.first {
				eff = m
				if st != nil {
					atomic.AddInt64(&st.managed, 1)
				}
			}
			// I4: the declaration shows as an edge carrying the effective requirement, or as a node error
			var edge *resolve.Edge
			for i := range out[it.node] {
				e := &out[it.node][i]
				if mvnKeyOfEdge(g, *e) == k && e.Requirement == eff {
					edge = e
				}
			}
			hasErr := false
			for _, ne := range g.Nodes[it.node].Errors {
				if ne.Req.Name == r.Pkg {
					hasErr = true
				}
			}
			if edge == nil && !hasErr {
				// a declaration that is neither excluded nor filtered by scope must show in the graph
				fail("declaration", fmt.Sprintf("%s@%s declares %s %s (effective requirement %s), which no exclusion or scope rule removes, but there is neither such an edge nor a node error", nd.Name, nd.Version, r.Pkg, r.Ver, eff))
			}
			if edge == nil {
				// management: no edge for this artifact from this node may carry the unmanaged version
				if eff != r.Ver {
					for _, e := range out[it.node] {
						if mvnKeyOfEdge(g, e) == k && e.Requirement == r.Ver {
							fail("management", fmt.Sprintf("%s@%s declares %s %s; the root manages it to %s but the edge still carries %s", nd.Name, nd.Version, r.Pkg, r.Ver, eff, r.Ver))
						}
					}
				}
				continue
			}
			if _, hard := univ.MavenHardSat[eff]; !hard {
				if _, seen := firstSoft[k]; !seen {
					firstSoft[k] = eff
				}
			}
			if visited[k] {
				continue
			}
			visited[k] = true
			to := int(edge.To)
			if r.AType == "war" || r.AType == "ear" || r.AType == "rar" {
				// I7: not traversed
				if len(out[to]) > 0 && !expanded[to] {
					fail("war", fmt.Sprintf("%s@%s was selected through a %s dependency but has outgoing edges", g.Nodes[to].Version.Name, g.Nodes[to].Version.Version, r.AType))
				}
				// The resolver identifies nodes by name and version: a node first selected through a war stays
				// unexpanded when a jar declaration of the same coordinates reaches it later. That conflation is the
				// library's model of a node, not one of the property's clauses; the walk follows it.
				if !expanded[to] {
					expanded[to] = true
					if st != nil {
						atomic.AddInt64(&st.unfollowed, 1)
					}
				}
				continue
			}
			ex := map[string]bool{}
			for e := range it.excl {
				ex[e] = true
			}
			for _, e := range strings.FieldsFunc(r.Excl, func(c rune) bool { return c == '|' || c == ',' }) {
				ex[e] = true
			}
			if !expanded[to] {
				expanded[to] = true
				queue = append(queue, item{to, ex, false})
			}
		}
	}
	// I3: nearest declaration wins where no range on the artifact exists anywhere in the universe
	anyHard := len(hardAnywhere) > 0
	for k, v := range sel {
		// Ranges make the resolver abandon a pass and start again with the requirements collected so far, and
		// those (also soft ones met in the abandoned pass) legitimately steer later choices. The nearest-wins
		// clause is judged on universes without any range, where the traversal is a single pass.
		if anyHard {
			continue
		}
		if st != nil {
			atomic.AddInt64(&st.nearestJudged, 1)
		}
		if fs, ok := firstSoft[k]; ok && fs != v {
			fail("nearest", fmt.Sprintf("artifact %v: the first declaration in breadth-first order asks for %s but %s was selected (no range on it anywhere)", k, fs, v))
		}
	}
	// I8: reachability
	seen := make([]bool, n)
	seen[0] = true
	stack := []int{0}
	for len(stack) > 0 {
		x := stack[len(stack)-1]
		stack = stack[:len(stack)-1]
		for _, e := range out[x] {
			if !seen[e.To] {
				seen[e.To] = true
				stack = append(stack, int(e.To))
			}
		}
	}
	for i, s := range seen {
		if !s {
			fail("reach", fmt.Sprintf("node %d %s@%s is not reachable from the root", i, g.Nodes[i].Version.Name, g.Nodes[i].Version.Version))
		}
	}
	return fails, fmt.Sprintf("nodes=%d err=%v", n, g.Error != "")
}

// C07 decides the Maven mediation property.
func C07(tier string) {
	run := core.NewRun("C07", tier, c07Replay)
	quick := tier == "quick"
	dev := 3
	if quick {
		dev = 2
		run.SetBudget(120 * time.Second)
	} else {
		run.SetBudget(2400 * time.Second)
	}
	run.Cov["rule"] = "all Maven universes within the deviation bound from the empty base and (one deviation fewer) from the chain template of DESIGN §6.6(b) (requirement slots over soft 1/2 and ranges [1,2] [2,) [3] (,1]; decorations: test/provided/runtime scope, optional, exclusions incl. wildcards, classifier, type war/pom; root-managed versions), every version with requirements as root; invariants: one version per artifact key, range edges inside their range, nearest (breadth-first) soft declaration wins where no range on the artifact exists in the universe, managed version overrides transitive declarations, excluded artifacts not reached on that path, test/optional/provided edges only from the root, war-selected nodes not traversed, every followed declaration is an edge or a node error, reachability. Non-trivial = >= 3 nodes."
	var universes, resolves, nontrivial int64
	st := &c07Stats{}
	per := map[string]any{}
	type family struct {
		sp   *univ.Space
		name string
		max  int
		keep func(kind, dep, target, option string) bool
	}
	var fams []family
	for _, sp := range univ.MavenSpaces() {
		d := dev
		if sp.Base != "empty" {
			d--
		}
		if sp.Base == "nested-excl" {
			d = 1
		}
		fams = append(fams, family{sp, sp.Base + "/all", d, nil})
	}
	for _, sp := range univ.MavenSpaces() {
		switch sp.Base {
		case "chain", "tree":
			// exclusion inheritance: exclusion decorations on any of the template's edges, one level deeper
			fams = append(fams, family{sp, sp.Base + "/exclusions", dev + 1, func(kind, dep, target, option string) bool {
				return kind == "decor" && strings.HasPrefix(option, "excl:")
			}})
			// management against artifact keys: a managed version applies to the plain artifact only, not to the same
			// group:artifact with a classifier or another type
			fams = append(fams, family{sp, sp.Base + "/management+keys", dev + 1, func(kind, dep, target, option string) bool {
				return kind == "mgmt" || (kind == "decor" && (strings.HasPrefix(option, "classifier:") || strings.HasPrefix(option, "type:")))
			}})
			// scopes and management on the template
			fams = append(fams, family{sp, sp.Base + "/scopes+management", dev + 1, func(kind, dep, target, option string) bool {
				return kind == "mgmt" || (kind == "decor" && (strings.HasPrefix(option, "scope:") || option == "optional"))
			}})
		case "empty":
			// artifact keys: g:c declared from the root, g:a@1 and g:b@1 with any requirement and type/classifier
			fams = append(fams, family{sp, "empty/types", dev + 3, func(kind, dep, target, option string) bool {
				switch kind {
				case "req":
					if dep == "g:r@1" && (target == "g:a" || target == "g:b") {
						return option == "1"
					}
					return target == "g:c" && (dep == "g:r@1" || dep == "g:a@1" || dep == "g:b@1") && (option == "1" || option == "2" || option == "[2,)" || option == "[1,2]")
				case "decor":
					return target == "g:c" && (option == "type:war" || option == "type:pom" || option == "classifier:x")
				}
				return false
			}})
		}
	}
	for _, fm := range fams {
		sp := fm.sp
		var batch []univ.Universe
		var u0, r0, nt0 int64
		flush := func() {
			core.ParFor(len(batch), func(i int) {
				u := batch[i]
				_, hot := c05Roots(u)
				for _, root := range hot {
					fails, outcome := c07Check(u, root, st)
					atomic.AddInt64(&r0, 1)
					if strings.HasPrefix(outcome, "nodes=") && !strings.HasPrefix(outcome, "nodes=1 ") && !strings.HasPrefix(outcome, "nodes=2 ") {
						atomic.AddInt64(&nt0, 1)
					}
					run.Outcome(outcome)
					for _, f := range fails {
						clause, _, _ := strings.Cut(f, ":")
						run.Fail(core.Join("maven", clause, root[0]+"@"+root[1], u.Encode()), f)
					}
				}
				// the same answers from one resolver object that has already resolved the other roots (templates only:
				// the histories of the empty base belong to C05)
				if sp.Base != "empty" && fm.keep == nil && len(hot) > 1 {
					for _, f := range c07Reuse(u, hot) {
						run.Fail(core.Join("maven", "reuse", f[0], u.Encode()), f[1])
					}
					atomic.AddInt64(&r0, int64(2*len(hot)))
				}
			})
			batch = batch[:0]
		}
		stopped := false
		visit := func(picks []univ.Pick) {
			if stopped {
				return
			}
			u, ok := sp.Build(picks)
			if !ok || len(u.Vers[0].Reqs) == 0 {
				return
			}
			u0++
			batch = append(batch, u)
			if len(batch) >= 8192 {
				flush()
				if run.OutOfTime("C07 "+fm.name) || run.Violations() > 500 {
					stopped = true
				}
			}
		}
		if fm.keep == nil {
			univ.Enumerate(sp.Slots, fm.max, visit)
		} else {
			sp.EnumerateFocused(fm.max, fm.keep, visit)
		}
		flush()
		if stopped {
			run.Cap("maven/" + fm.name + ": enumeration stopped early")
		}
		universes += u0
		resolves += r0
		nontrivial += nt0
		per[fm.name] = map[string]any{"universes": u0, "resolutions": r0, "deviation_bound": fm.max, "completed": !stopped}
	}
	run.Cov["states"] = universes
	run.Cov["transitions"] = resolves
	run.Cov["traces_validated_against_impl"] = resolves
	run.Cov["evaluations"] = resolves
	run.Cov["distinct_nontrivial"] = nontrivial
	run.Cov["per_family"] = per
	run.Cov["mechanisms_exercised"] = map[string]int64{"range_edges": st.ranges, "excluded_declarations": st.exclusions, "managed_overrides": st.managed, "resolutions_returning_error": st.errors, "resolutions_with_3plus_nodes": st.multiNode, "nodes_left_unexpanded_after_war_selection": st.unfollowed, "nearest_wins_artifacts_judged": st.nearestJudged}
	run.Sample(map[string]any{"universe": `{"sys":"Maven","vers":[{"p":"g:r","v":"1","reqs":[{"p":"g:a","v":"1","excl":"g:c"}]},{"p":"g:a","v":"1","reqs":[{"p":"g:b","v":"[1,2]"}]}, ...]}`, "root": "g:r@1"})
	run.Assumptions = []string{"single registry; universes beyond the deviation bound are not covered", "range satisfaction comes from a hand table; the nearest-wins clause is judged on universes without any range requirement (with ranges the resolver restarts with the requirements collected so far, which legitimately steer the result)"}
	run.Finish()
}

func c07ReuseReplay(p []string) (bool, string) {
	u, err := univ.Decode(p[3])
	if err != nil {
		return true, "bad universe"
	}
	_, hot := c05Roots(u)
	for _, f := range c07Reuse(u, hot) {
		return false, f[1]
	}
	return true, "reuse agrees with fresh resolutions"
}

func c07Replay(w string) (bool, string) {
	p := core.Split(w)
	if p[0] != "maven" {
		return true, "unknown"
	}
	if p[1] == "reuse" {
		return c07ReuseReplay(p)
	}
	u, err := univ.Decode(p[3])
	if err != nil {
		return true, "bad universe"
	}
	n, v, _ := strings.Cut(p[2], "@")
	fails, _ := c07Check(u, [2]string{n, v}, nil)
	var rel []string
	for _, f := range fails {
		if strings.HasPrefix(f, p[1]+":") {
			rel = append(rel, f)
		}
	}
	sort.Strings(rel)
	return len(rel) == 0, strings.Join(rel, "\n")
}
