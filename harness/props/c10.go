package props

import (
	"fmt"
	"strings"

	"deps.dev/util/pypi"
	"deps.dev/util/semver"
	"verif/harness/core"
	"verif/harness/dom"
)

// c10Domain returns the strings whose canonical form is checked for a system.
func c10Domain(sys semver.System, quick bool) []string {
	strs := dom.Versions(sys, quick)
	if sys == semver.Maven {
		_, out := dom.Maven(quick)
		strs = append(append([]string(nil), strs...), out...)
	}
	return strs
}

// c10InScope applies the property's RubyGems restriction (release-only).
func c10InScope(sys semver.System, v *semver.Version) bool {
	if sys == semver.RubyGems && v.IsPrerelease() {
		return false
	}
	return true
}

func c10One(sys semver.System, s string) (held bool, obs string) {
	v, err := sys.Parse(s)
	if err != nil {
		return true, "unparsable"
	}
	if !c10InScope(sys, v) {
		return true, "out of scope (RubyGems prerelease)"
	}
	var sb strings.Builder
	held = true
	for _, showBuild := range []bool{true, false} {
		c := v.Canon(showBuild)
		fmt.Fprintf(&sb, "Canon(%v)=%q ", showBuild, c)
		w, err := sys.Parse(c)
		if err != nil {
			fmt.Fprintf(&sb, "canonical string does not parse: %v; ", err)
			held = false
			continue
		}
		if cmp := v.Compare(w); cmp != 0 {
			fmt.Fprintf(&sb, "Compare(original, Parse(canon))=%d; ", cmp)
			held = false
		}
		if cmp := sys.Compare(s, c); cmp != 0 {
			fmt.Fprintf(&sb, "System.Compare(original, canon)=%d; ", cmp)
			held = false
		}
		if c2 := w.Canon(showBuild); c2 != c {
			fmt.Fprintf(&sb, "not idempotent: Canon(Parse(canon))=%q; ", c2)
			held = false
		}
	}
	if sys == semver.PyPI {
		if got, want := pypi.CanonVersion(s), v.Canon(true); got != want {
			fmt.Fprintf(&sb, "pypi.CanonVersion=%q want %q; ", got, want)
			held = false
		}
	}
	return held, sb.String()
}

// C10 decides the canonical-string property.
func C10(tier string) {
	run := core.NewRun("C10", tier, c10Replay)
	quick := tier == "quick"
	run.Cov["rule"] = "every string of the C01 domains (plus Maven out-of-domain shapes; RubyGems release-only) accepted by Parse: Parse(Canon(v)) succeeds, compares equal, Canon is idempotent (with and without build); all members of every same-canonical-string group compare equal; pypi.CanonVersion agrees and returns unparsable input unchanged. Non-trivial = canonical string differs from the input."
	var states, transitions, nontrivial int64
	perSys := map[string]any{}
	for _, sys := range dom.Systems {
		strs := c10Domain(sys, quick)
		groups := map[string][]int{}
		var vers []*semver.Version
		var kept []string
		nt, unparsable := 0, 0
		for _, s := range strs {
			v, err := sys.Parse(s)
			if err != nil {
				unparsable++
				if sys == semver.PyPI {
					if got := pypi.CanonVersion(s); got != s {
						run.Fail(core.Join("pypicanon", sys.String(), s), fmt.Sprintf("unparsable input changed to %q", got))
					}
				}
				continue
			}
			if !c10InScope(sys, v) {
				continue
			}
			held, obs := c10One(sys, s)
			transitions += 8
			if !held {
				run.Fail(core.Join("canon", sys.String(), s), obs)
			}
			c := v.Canon(false)
			if c != s {
				nt++
			}
			run.Outcome(sys.String() + ":" + c)
			groups[c] = append(groups[c], len(vers))
			vers = append(vers, v)
			kept = append(kept, s)
		}
		states += int64(len(vers))
		nontrivial += int64(nt)
		groupPairs := 0
		for _, g := range groups {
			for _, i := range g {
				for _, j := range g {
					if i < j {
						groupPairs++
						transitions++
						if vers[i].Compare(vers[j]) != 0 || vers[j].Compare(vers[i]) != 0 {
							run.Fail(core.Join("group", sys.String(), kept[i], kept[j]), "same canonical string but do not compare equal")
						}
					}
				}
			}
		}
		if len(vers) < 20 {
			core.Harness("C10 %v: domain collapsed (%d)", sys, len(vers))
		}
		perSys[sys.String()] = map[string]any{"checked": len(vers), "unparsable": unparsable, "canonical_strings": len(groups), "canon_differs_from_input": nt, "same_canon_pairs": groupPairs}
		run.Sample(map[string]any{"system": sys.String(), "input": kept[len(kept)/2], "canon": vers[len(kept)/2].Canon(true)})
	}
	run.Cov["states"] = states
	run.Cov["transitions"] = transitions
	run.Cov["traces_validated_against_impl"] = states
	run.Cov["evaluations"] = states
	run.Cov["distinct_nontrivial"] = nontrivial
	run.Cov["per_system"] = perSys
	run.Assumptions = []string{"domains of DESIGN §6.1-6.4 (+ Maven out-of-domain shapes for the parse/idempotence clauses)", "RubyGems prerelease versions excluded, as the property states"}
	run.Finish()
}

func c10Replay(w string) (bool, string) {
	p := core.Split(w)
	sys, ok := dom.SysByName(p[1])
	if !ok {
		return true, "unknown system"
	}
	switch p[0] {
	case "canon":
		return c10One(sys, p[2])
	case "group":
		a, _ := sys.Parse(p[2])
		b, _ := sys.Parse(p[3])
		return a.Compare(b) == 0 && b.Compare(a) == 0, fmt.Sprintf("canon %q vs %q; cmp=%d", a.Canon(false), b.Canon(false), a.Compare(b))
	case "pypicanon":
		got := pypi.CanonVersion(p[2])
		return got == p[2], fmt.Sprintf("CanonVersion(%q)=%q", p[2], got)
	}
	return true, "unknown kind"
}
