package props

import (
	"encoding/json"
	"fmt"
	"sort"
	"strings"
	"sync/atomic"

	"deps.dev/util/pypi"
	pypires "deps.dev/util/resolve/pypi"
	"verif/harness/core"
	"verif/harness/dom"
	"verif/harness/oracle"
	"verif/harness/univ"
)

var c16Extras = []string{"", "x", "y", "x,y"}

type c16Parsed struct {
	URL    bool     `json:"url"`
	Name   string   `json:"name"`
	Extras []string `json:"extras"`
	Spec   []string `json:"spec"`
	Marker *string  `json:"marker"`
}

// c16ReqRows asks packaging for the parse of every requirement string: a JSON row, "INVALID" or "URL".
// Large domains are split over parallel interpreter processes.
func c16ReqRows(alt bool, strs []string) (tool string, rows []string, err error) {
	const chunk = 20000
	n := (len(strs) + chunk - 1) / chunk
	parts := make([][]string, n)
	errs := make([]error, n)
	tools := make([]string, n)
	core.ParFor(n, func(c int) {
		hi := (c + 1) * chunk
		if hi > len(strs) {
			hi = len(strs)
		}
		tools[c], parts[c], errs[c] = c16ReqRowsOne(alt, strs[c*chunk:hi])
	})
	for c := 0; c < n; c++ {
		if errs[c] != nil {
			return "", nil, errs[c]
		}
		rows = append(rows, parts[c]...)
		tool = tools[c]
	}
	return tool, rows, nil
}

func c16ReqRowsOne(alt bool, strs []string) (tool string, rows []string, err error) {
	a, err := oracle.PythonQuery(alt, map[string]any{"reqstrings": strs})
	if err != nil {
		return "", nil, err
	}
	var parsed []*c16Parsed
	if err := json.Unmarshal(a["parsed"], &parsed); err != nil {
		return "", nil, err
	}
	json.Unmarshal(a["tool"], &tool)
	for _, p := range parsed {
		switch {
		case p == nil:
			rows = append(rows, "INVALID")
		case p.URL:
			rows = append(rows, "URL")
		default:
			b, _ := json.Marshal(p)
			rows = append(rows, string(b))
		}
	}
	if len(rows) != len(strs) {
		return "", nil, fmt.Errorf("packaging answered %d of %d requirement strings", len(rows), len(strs))
	}
	return tool, rows, nil
}

func c16NameRows(alt bool, names []string) (tool string, rows []string, err error) {
	a, err := oracle.PythonQuery(alt, map[string]any{"names": names})
	if err != nil {
		return "", nil, err
	}
	json.Unmarshal(a["tool"], &tool)
	if err := json.Unmarshal(a["canon"], &rows); err != nil || len(rows) != len(names) {
		return "", nil, fmt.Errorf("packaging canonicalize_name: %v", err)
	}
	return tool, rows, nil
}

func c16MarkerRows(alt bool, env map[string]string, ms []string) (tool string, rows []string, err error) {
	a, err := oracle.PythonQuery(alt, map[string]any{"markers": ms, "env": env, "extras": c16Extras})
	if err != nil {
		return "", nil, err
	}
	json.Unmarshal(a["tool"], &tool)
	var r []*string
	if err := json.Unmarshal(a["markereval"], &r); err != nil || len(r) != len(ms) {
		return "", nil, fmt.Errorf("packaging marker evaluation: %v", err)
	}
	for _, x := range r {
		if x == nil {
			rows = append(rows, "INVALID")
		} else {
			rows = append(rows, *x)
		}
	}
	return tool, rows, nil
}

func c16Env() map[string]string { return pypires.VerifMarkers() }

func c16EnvDomain(env map[string]string) []string {
	var ks []string
	for k, v := range env {
		ks = append(ks, k+"="+v)
	}
	sort.Strings(ks)
	return ks
}

// GenTablesC16 writes the committed quick-tier tables.
func GenTablesC16() {
	strs := dom.ReqStrings(true)
	tool, rows, err := c16ReqRows(false, strs)
	if err != nil {
		core.Harness("gen-tables C16: %v", err)
	}
	t := &oracle.StringTable{Tool: tool, Domain: oracle.DomainHash(strs), Rows: rows}
	if at, ar, err := c16ReqRows(true, strs); err == nil {
		t.AltTool, t.AltRows = at, ar
	}
	if err := oracle.SaveStringTable("C16-req-quick", t); err != nil {
		core.Harness("gen-tables C16: %v", err)
	}
	valid := 0
	for _, r := range rows {
		if r != "INVALID" && r != "URL" {
			valid++
		}
	}
	fmt.Printf("C16 requirement strings %d, %d valid for %s\n", len(strs), valid, tool)
	names := dom.PackageNames(true)
	tool, rows, err = c16NameRows(false, names)
	if err != nil {
		core.Harness("gen-tables C16: %v", err)
	}
	if err := oracle.SaveStringTable("C16-names-quick", &oracle.StringTable{Tool: tool, Domain: oracle.DomainHash(names), Rows: rows}); err != nil {
		core.Harness("gen-tables C16: %v", err)
	}
	fmt.Printf("C16 names %d\n", len(names))
	env := c16Env()
	ms := dom.Markers(env, true)
	tool, rows, err = c16MarkerRows(false, env, ms)
	if err != nil {
		core.Harness("gen-tables C16: %v", err)
	}
	t = &oracle.StringTable{Tool: tool, Domain: oracle.DomainHash(ms, c16EnvDomain(env), c16Extras), Rows: rows}
	if at, ar, err := c16MarkerRows(true, env, ms); err == nil {
		t.AltTool, t.AltRows = at, ar
	}
	if err := oracle.SaveStringTable("C16-markers-quick", t); err != nil {
		core.Harness("gen-tables C16: %v", err)
	}
	valid = 0
	for _, r := range rows {
		if r != "INVALID" {
			valid++
		}
	}
	fmt.Printf("C16 markers %d, %d valid for %s\n", len(ms), valid, tool)
}

// markerTokens is the comparison form of marker text: quotes unified, whitespace dropped.
func markerTokens(s string) string {
	var out []string
	for i := 0; i < len(s); {
		c := s[i]
		switch {
		case c == ' ' || c == '\t':
			i++
		case c == '"' || c == '\'':
			j := strings.IndexByte(s[i+1:], c)
			if j < 0 {
				out = append(out, s[i:])
				i = len(s)
				break
			}
			out = append(out, `"`+s[i+1:i+1+j]+`"`)
			i += j + 2
		case c == '(' || c == ')':
			out = append(out, string(c))
			i++
		case strings.IndexByte("<>=!~", c) >= 0:
			j := i
			for j < len(s) && strings.IndexByte("<>=!~", s[j]) >= 0 {
				j++
			}
			out = append(out, s[i:j])
			i = j
		default:
			j := i
			for j < len(s) && strings.IndexByte(" \t\"'()<>=!~", s[j]) < 0 {
				j++
			}
			out = append(out, s[i:j])
			i = j
		}
	}
	return strings.Join(out, " ")
}

func c16SortedSet(s string, strip bool) []string {
	out := []string{}
	for _, p := range strings.Split(s, ",") {
		p = strings.Trim(p, " \t")
		if strip {
			p = strings.NewReplacer(" ", "", "\t", "").Replace(p)
		}
		if p != "" {
			out = append(out, p)
		}
	}
	sort.Strings(out)
	return out
}

// c16JudgeReq compares ParseDependency with packaging's parse (row).
func c16JudgeReq(s, row string) (held bool, obs string) {
	if row == "INVALID" || row == "URL" {
		return true, "outside the property: packaging says " + row
	}
	var p c16Parsed
	if err := json.Unmarshal([]byte(row), &p); err != nil {
		return true, "bad row"
	}
	d, err := pypi.ParseDependency(s)
	if err != nil {
		return false, fmt.Sprintf("ParseDependency(%q) fails (%v); packaging parses it as %s", s, err, row)
	}
	var diffs []string
	if d.Name != p.Name {
		diffs = append(diffs, fmt.Sprintf("name %q vs %q", d.Name, p.Name))
	}
	le, pe := c16SortedSet(d.Extras, false), append([]string{}, p.Extras...)
	sort.Strings(pe)
	if strings.Join(le, ",") != strings.Join(pe, ",") {
		diffs = append(diffs, fmt.Sprintf("extras %q vs %q", le, pe))
	}
	ls, ps := c16SortedSet(d.Constraint, true), append([]string{}, p.Spec...)
	sort.Strings(ps)
	if strings.Join(ls, ",") != strings.Join(ps, ",") {
		diffs = append(diffs, fmt.Sprintf("specifier %q vs %q", d.Constraint, ps))
	}
	pm := ""
	if p.Marker != nil {
		pm = *p.Marker
	}
	if markerTokens(d.Environment) != markerTokens(pm) {
		diffs = append(diffs, fmt.Sprintf("marker %q vs %q", d.Environment, pm))
	}
	if len(diffs) > 0 {
		return false, fmt.Sprintf("ParseDependency(%q) = %+v; library vs packaging: %s", s, d, strings.Join(diffs, "; "))
	}
	return true, fmt.Sprintf("%+v", d)
}

func c16JudgeName(n, want string) (bool, string) {
	got := pypi.CanonPackageName(n)
	if got != want {
		return false, fmt.Sprintf("CanonPackageName(%q) = %q, packaging canonicalize_name gives %q", n, got, want)
	}
	if again := pypi.CanonPackageName(got); again != got {
		return false, fmt.Sprintf("CanonPackageName is not idempotent: %q -> %q -> %q", n, got, again)
	}
	return true, got
}

// c16LibMarkers evaluates markers through the real resolver: one universe whose holders g, h[x], k[y], j[x,y] each
// guard one package per marker; the row says per holder whether the guarded edge is in the graph ("ERR": the
// resolution reports an error when this marker is present).
func c16LibMarkers(ms []string) []string {
	rows := make([]string, len(ms))
	var eval func(lo, hi int)
	eval = func(lo, hi int) {
		if lo >= hi {
			return
		}
		holders := []string{"g", "h", "k", "j"}
		u := univ.Universe{Sys: "PyPI"}
		root := univ.Ver{Pkg: "r", Ver: "1"}
		for hi2, h := range holders {
			root.Reqs = append(root.Reqs, univ.Req{Pkg: h, Ver: "", Extras: c16Extras[hi2]})
		}
		u.Vers = append(u.Vers, root)
		for _, h := range holders {
			hv := univ.Ver{Pkg: h, Ver: "1"}
			for i := lo; i < hi; i++ {
				hv.Reqs = append(hv.Reqs, univ.Req{Pkg: fmt.Sprintf("%s%d", h, i), Ver: "", Env: ms[i]})
				u.Vers = append(u.Vers, univ.Ver{Pkg: fmt.Sprintf("%s%d", h, i), Ver: "1"})
			}
			u.Vers = append(u.Vers, hv)
		}
		g, err := pypires.NewResolver(u.Client(nil)).Resolve(ctxBG, u.VK("r", "1"))
		bad := err != nil || g == nil || g.Error != ""
		if !bad {
			for _, n := range g.Nodes {
				if len(n.Errors) > 0 {
					bad = true
				}
			}
		}
		if bad {
			if hi-lo == 1 {
				rows[lo] = "ERR"
				return
			}
			mid := (lo + hi) / 2
			eval(lo, mid)
			eval(mid, hi)
			return
		}
		present := map[string]bool{}
		for _, n := range g.Nodes {
			present[n.Version.Name] = true
		}
		for i := lo; i < hi; i++ {
			row := ""
			for _, h := range holders {
				if present[fmt.Sprintf("%s%d", h, i)] {
					row += "1"
				} else {
					row += "0"
				}
			}
			rows[i] = row
		}
	}
	const batch = c16Batch
	n := (len(ms) + batch - 1) / batch
	core.ParFor(n, func(b int) {
		hi := (b + 1) * batch
		if hi > len(ms) {
			hi = len(ms)
		}
		eval(b*batch, hi)
	})
	return rows
}

const c16Batch = 64

// c16LibMarkersBacktrack evaluates markers as guards on a holder that is requested with extra x, pinned, given up when
// a later pin fails and re-pinned at another version: r -> a[x], b; a@2.0 -> c!=1.0; a@1.0 -> c==1.0; b@2.0 -> c==1.0;
// both versions of a carry the guarded requirements. The answer is whether the edge from the final a@1.0 exists.
func c16LibMarkersBacktrack(ms []string) []string {
	rows := make([]string, len(ms))
	var eval func(lo, hi int)
	eval = func(lo, hi int) {
		if lo >= hi {
			return
		}
		u := univ.Universe{Sys: "PyPI"}
		u.Vers = append(u.Vers, univ.Ver{Pkg: "r", Ver: "1", Reqs: []univ.Req{{Pkg: "a", Ver: "", Extras: "x"}, {Pkg: "b", Ver: ""}}})
		a2 := univ.Ver{Pkg: "a", Ver: "2.0", Reqs: []univ.Req{{Pkg: "c", Ver: "!=1.0"}}}
		a1 := univ.Ver{Pkg: "a", Ver: "1.0", Reqs: []univ.Req{{Pkg: "c", Ver: "==1.0"}}}
		for i := lo; i < hi; i++ {
			g := univ.Req{Pkg: fmt.Sprintf("m%d", i), Ver: "", Env: ms[i]}
			a2.Reqs = append(a2.Reqs, g)
			a1.Reqs = append(a1.Reqs, g)
			u.Vers = append(u.Vers, univ.Ver{Pkg: g.Pkg, Ver: "1"})
		}
		u.Vers = append(u.Vers, a1, a2, univ.Ver{Pkg: "b", Ver: "2.0", Reqs: []univ.Req{{Pkg: "c", Ver: "==1.0"}}}, univ.Ver{Pkg: "c", Ver: "1.0"}, univ.Ver{Pkg: "c", Ver: "2.0"})
		g, err := pypires.NewResolver(u.Client(nil)).Resolve(ctxBG, u.VK("r", "1"))
		bad := err != nil || g == nil || g.Error != ""
		pinned := ""
		if !bad {
			for _, n := range g.Nodes {
				if len(n.Errors) > 0 {
					bad = true
				}
				if n.Version.Name == "a" {
					pinned = n.Version.Version
				}
			}
		}
		if bad || pinned != "1.0" {
			if hi-lo == 1 {
				rows[lo] = "ERR"
				return
			}
			mid := (lo + hi) / 2
			eval(lo, mid)
			eval(mid, hi)
			return
		}
		present := map[string]bool{}
		for _, n := range g.Nodes {
			present[n.Version.Name] = true
		}
		for i := lo; i < hi; i++ {
			if present[fmt.Sprintf("m%d", i)] {
				rows[i] = "1"
			} else {
				rows[i] = "0"
			}
		}
	}
	n := (len(ms) + c16Batch - 1) / c16Batch
	core.ParFor(n, func(b int) {
		hi := (b + 1) * c16Batch
		if hi > len(ms) {
			hi = len(ms)
		}
		eval(b*c16Batch, hi)
	})
	return rows
}

func c16JudgeMarkerBacktrack(m, want string) (bool, string) {
	got := c16LibMarkersBacktrack([]string{m})[0]
	if len(want) < 2 || got == string(want[1]) {
		return true, got
	}
	return false, fmt.Sprintf("marker %q on a holder re-pinned after backtracking (requested with extra x): guarded edge followed = %s, packaging evaluates %c", m, got, want[1])
}

// c16JudgeMarkerBatch replays a marker inside the batch it was evaluated with.
func c16JudgeMarkerBatch(m, want, ctx string) (bool, string) {
	var ms []string
	if json.Unmarshal([]byte(ctx), &ms) != nil {
		return true, "bad witness"
	}
	rows := c16LibMarkers(ms)
	for i, x := range ms {
		if x == m {
			return rows[i] == want, fmt.Sprintf("in its batch the marker %q is followed for %s, packaging evaluates %s", m, rows[i], want)
		}
	}
	return true, "marker not in its batch"
}

func c16JudgeMarker(m, want string) (bool, string) {
	if want == "INVALID" || strings.Contains(want, "x") {
		return true, "packaging rejects the marker or raises evaluating it"
	}
	got := c16LibMarkers([]string{m})[0]
	if got != want {
		return false, fmt.Sprintf("marker %q: guarded edge followed for requested extras (none, x, y, x+y) = %s, packaging evaluates %s", m, got, want)
	}
	return true, got
}

// C16 decides PEP 508 requirement parsing, name normalisation and marker evaluation against packaging.
func C16(tier string) {
	run := core.NewRun("C16", tier, c16Replay)
	quick := tier == "quick"
	run.Cov["rule"] = "requirement strings: the full product name x leading space x extras list x separators x specifier list (bare, parenthesised, inner spaces) x marker x spacing is parsed by pypi.ParseDependency and by packaging's Requirement; for every string packaging accepts (non-URL) the canonical name, the extras set, the specifier set and the marker token sequence must be equal. Names: every PEP 508-valid name over {a,B,1,-,_,.} up to the length bound through CanonPackageName vs canonicalize_name, plus idempotence. Markers: every atom variable x operator x literal (both operand orders; literals = the environment's value, its prefix/extension/case variants, versions around it, non-versions) and and/or/parenthesis compounds over a colliding atom list are placed as the guard of a dependency in a real PyPI universe; the guarded edge must be in the resolver's graph exactly when packaging evaluates the marker to true in the library's fixed environment, for requested extras none, x, y and x+y (pip's any-of rule). Quick uses committed tables (packaging 26.x; rows on which pip's vendored 21.3 differs are undecided), thorough runs packaging live on the larger domains."
	env := c16Env()
	var validated int64
	load := func(name string, live func() (string, []string, error), altLive func() (string, []string, error), domain ...[]string) *oracle.StringTable {
		if quick {
			t, err := oracle.LoadStringTable(name, domain...)
			if err != nil {
				core.Harness("C16: %v", err)
			}
			return t
		}
		tool, rows, err := live()
		if err != nil {
			core.Harness("C16: %v", err)
		}
		t := &oracle.StringTable{Tool: tool, Rows: rows}
		if altLive != nil {
			if at, ar, err := altLive(); err == nil {
				t.AltTool, t.AltRows = at, ar
			}
		}
		validated += int64(len(rows))
		return t
	}
	// 1. requirement strings
	strs := dom.ReqStrings(quick)
	rt := load("C16-req-quick", func() (string, []string, error) { return c16ReqRows(false, strs) }, func() (string, []string, error) { return c16ReqRows(true, strs) }, strs)
	var reqValid, reqDrift, reqBad int64
	core.ParFor(len(strs), func(i int) {
		row := rt.Rows[i]
		if row == "INVALID" || row == "URL" {
			return
		}
		if rt.AltRows != nil && rt.AltRows[i] != row {
			atomic.AddInt64(&reqDrift, 1)
			return
		}
		atomic.AddInt64(&reqValid, 1)
		if held, obs := c16JudgeReq(strs[i], row); !held {
			atomic.AddInt64(&reqBad, 1)
			run.Fail(core.Join("req", strs[i], row), obs)
		}
	})
	// 2. names
	names := dom.PackageNames(quick)
	nt := load("C16-names-quick", func() (string, []string, error) { return c16NameRows(false, names) }, nil, names)
	classes := map[string]bool{}
	for i, n := range names {
		classes[nt.Rows[i]] = true
		if held, obs := c16JudgeName(n, nt.Rows[i]); !held {
			run.Fail(core.Join("name", n, nt.Rows[i]), obs)
		}
	}
	// 3. markers
	ms := dom.Markers(env, quick)
	mt := load("C16-markers-quick", func() (string, []string, error) { return c16MarkerRows(false, env, ms) }, func() (string, []string, error) { return c16MarkerRows(true, env, ms) }, ms, c16EnvDomain(env), c16Extras)
	lib := c16LibMarkers(ms)
	var mValid, mDrift, mBad, mTrue, mLibErr, mUndef int64
	outcomes := map[string]bool{}
	for i, m := range ms {
		want := mt.Rows[i]
		if want == "INVALID" {
			continue
		}
		if strings.Contains(want, "x") {
			mUndef++ // packaging itself raises while evaluating (undefined comparison): nothing to agree with
			continue
		}
		if mt.AltRows != nil && mt.AltRows[i] != want {
			mDrift++
			continue
		}
		mValid++
		outcomes[want] = true
		if strings.Contains(want, "1") {
			mTrue++
		}
		if lib[i] == "ERR" {
			mLibErr++
		}
		if lib[i] != want {
			mBad++
			if alone := c16LibMarkers([]string{m})[0]; alone != want {
				run.Fail(core.Join("marker", m, want), fmt.Sprintf("marker %q: guarded edge followed for requested extras (none, x, y, x+y) = %s, packaging evaluates %s", m, lib[i], want))
			} else {
				// right on a fresh resolver, wrong after the resolver has seen the other markers of the batch
				lo := i / c16Batch * c16Batch
				hi := lo + c16Batch
				if hi > len(ms) {
					hi = len(ms)
				}
				ctx, _ := json.Marshal(ms[lo:hi])
				run.Fail(core.Join("marker-batch", m, want, string(ctx)), fmt.Sprintf("marker %q: evaluated alone the guarded edge is followed as packaging says (%s), but in one resolution together with the other markers of its batch it is followed for %s", m, want, lib[i]))
			}
		}
	}
	// the same markers on a holder that is re-pinned after a backtrack (only those the flat universe got right)
	var btIdx []int
	var btMs []string
	for i, m := range ms {
		if lib[i] == mt.Rows[i] && len(lib[i]) == len(c16Extras) {
			btIdx = append(btIdx, i)
			btMs = append(btMs, m)
		}
	}
	var mBacktrack int64
	for k, got := range c16LibMarkersBacktrack(btMs) {
		want := mt.Rows[btIdx[k]]
		mBacktrack++
		if got != string(want[1]) {
			if alone := c16LibMarkersBacktrack([]string{btMs[k]})[0]; alone == string(want[1]) {
				continue // right on its own: the answer depends on the other markers of the batch, which the flat phase reports with its batch as context
			}
			run.Fail(core.Join("marker-backtrack", btMs[k], want), fmt.Sprintf("marker %q on a holder re-pinned after backtracking (requested with extra x): guarded edge followed = %s, packaging evaluates %c", btMs[k], got, want[1]))
		}
	}
	for o := range outcomes {
		run.Outcome("marker row " + o)
	}
	run.Cov["states"] = int64(len(strs) + len(names) + len(ms))
	run.Cov["transitions"] = reqValid + int64(len(names)) + mValid*int64(len(c16Extras))
	run.Cov["evaluations"] = reqValid + int64(len(names)) + mValid*int64(len(c16Extras))
	run.Cov["distinct_nontrivial"] = reqValid + mTrue
	run.Cov["traces_validated_against_impl"] = validated
	run.Cov["requirement_strings"] = map[string]any{"reference": rt.Tool, "alt_reference": rt.AltTool, "strings": len(strs), "accepted_by_packaging": reqValid, "undecided_reference_drift": reqDrift, "disagreeing": reqBad}
	run.Cov["names"] = map[string]any{"reference": nt.Tool, "names": len(names), "canonical_classes": len(classes)}
	run.Cov["markers"] = map[string]any{"reference": mt.Tool, "alt_reference": mt.AltTool, "markers": len(ms), "accepted_by_packaging": mValid, "undecided_reference_drift": mDrift, "reference_raises_on_evaluation": mUndef, "true_for_some_extras": mTrue,
		"library_resolution_errors": mLibErr, "re_evaluated_after_backtracking": mBacktrack, "disagreeing": mBad, "extras_columns": c16Extras, "environment": env}
	run.Sample(map[string]any{"requirement": strs[len(strs)/2], "packaging": rt.Rows[len(strs)/2]})
	run.Sample(map[string]any{"marker": ms[len(ms)/3], "packaging": mt.Rows[len(ms)/3], "library": lib[len(ms)/3]})
	run.Cov["explanation"] = "states = domain strings; transitions = comparisons made; traces_validated_against_impl = rows computed by live packaging in this run (thorough)"
	run.Assumptions = []string{"packaging 26.x is the reference, pip's vendored 21.3 the drift detector: rows on which they differ are not judged", "several requested extras are combined with pip's any-of rule"}
	run.Finish()
}

func c16Replay(w string) (bool, string) {
	p := core.Split(w)
	switch p[0] {
	case "req":
		return c16JudgeReq(p[1], p[2])
	case "name":
		return c16JudgeName(p[1], p[2])
	case "marker":
		return c16JudgeMarker(p[1], p[2])
	case "marker-backtrack":
		return c16JudgeMarkerBacktrack(p[1], p[2])
	case "marker-batch":
		return c16JudgeMarkerBatch(p[1], p[2], p[3])
	}
	return true, "unknown witness"
}
