package props

import (
	"fmt"

	"verif/harness/dom"

	"verif/harness/core"
	"verif/harness/oracle"
)

// GenTables regenerates the committed reference tables from the live reference tools.
func GenTables(which string) {
	if which == "" || which == "C02" {
		for _, sys := range c02Systems {
			if !oracle.Available(sys.String()) {
				core.Harness("gen-tables: reference tool for %v is not available", sys)
			}
			t, err := oracle.BuildVersionTable(sys.String(), C02Domain(sys))
			if err != nil {
				core.Harness("gen-tables C02 %v: %v", sys, err)
			}
			if err := oracle.Save(c02TableName(sys), t); err != nil {
				core.Harness("gen-tables: %v", err)
			}
			acc := 0
			for _, r := range t.Rank {
				if r >= 0 {
					acc++
				}
			}
			fmt.Printf("C02 %-9v %5d strings, %5d accepted by %s\n", sys, len(t.Rank), acc, t.Tool)
		}
	}
	if which == "" || which == "C03" {
		genTablesC03()
	}
	if which == "" || which == "C15" {
		GenTablesC15()
	}
	if which == "" || which == "C16" {
		GenTablesC16()
	}
}

func genTablesC03() {
	for _, sys := range c03Systems {
		if !oracle.Available(sys.String()) {
			core.Harness("gen-tables: reference tool for %v is not available", sys)
		}
		reqs, cands := dom.MatchDomain(sys)
		t, err := oracle.BuildMatchTable(sys.String(), reqs, cands)
		if err != nil {
			core.Harness("gen-tables C03 %v: %v", sys, err)
		}
		if err := oracle.Save(c03TableName(sys), t); err != nil {
			core.Harness("gen-tables: %v", err)
		}
		acc := 0
		for _, v := range t.ReqValid {
			if v {
				acc++
			}
		}
		fmt.Printf("C03 %-6v %6d requirements (%d accepted by %s) x %d candidates\n", sys, len(reqs), acc, t.Tool, len(cands))
	}
}
