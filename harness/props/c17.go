package props

import (
	"encoding/json"
	"fmt"
	"go/ast"
	"go/parser"
	"go/token"
	"os"
	"os/exec"
	"path/filepath"
	"reflect"
	"sort"
	"strconv"
	"strings"

	"deps.dev/util/resolve"
	"verif/harness/core"
	"verif/harness/ptree"
)

type c17Result struct {
	fails    map[string]string // witness -> detail
	states   int
	compared int
	notes    map[string]any
}

func (r *c17Result) fail(clause, key, detail string) { r.fails[core.Join(clause, key)] = detail }

func binDir() string { return filepath.Join(core.Root, ".cache", "bin") }

func loadEmbedded(ver string) (ptree.Tree, error) {
	out, err := exec.Command(filepath.Join(binDir(), "dump"+ver)).Output()
	if err != nil {
		return ptree.Tree{}, fmt.Errorf("dump%s: %v", ver, err)
	}
	var t ptree.Tree
	if err := json.Unmarshal(out, &t); err != nil {
		return ptree.Tree{}, err
	}
	return t, nil
}

func c17Evaluate() *c17Result {
	r := &c17Result{fails: map[string]string{}, notes: map[string]any{}}
	emb := map[string]ptree.Tree{}
	src := map[string]ptree.Tree{}
	for _, ver := range []string{"v3", "v3alpha"} {
		e, err := loadEmbedded(ver)
		if err != nil {
			core.Harness("C17: %v", err)
		}
		emb[ver] = e
		b, err := os.ReadFile(filepath.Join(core.Repo, "api", ver, "api.proto"))
		if err != nil {
			core.Harness("C17: %v", err)
		}
		p, err := ptree.ParseProto(string(b))
		if err != nil {
			// a .proto the subset parser cannot read cannot be shown equal to the generated code
			r.fail("proto-parse", ver, err.Error())
			continue
		}
		src[ver] = p
		// clause: generated code describes exactly the .proto (both directions, including declaration order)
		a, bb := p.Flatten(), e.Flatten()
		r.states += len(a) + len(bb)
		for k, v := range a {
			r.compared++
			if w, ok := bb[k]; !ok {
				r.fail("proto-vs-go", ver+" "+k, fmt.Sprintf("declared in api.proto (%s) but absent from the descriptor embedded in api.pb.go", v))
			} else if w != v {
				r.fail("proto-vs-go", ver+" "+k, fmt.Sprintf("api.proto says %q, descriptor embedded in api.pb.go says %q", v, w))
			}
		}
		for k, w := range bb {
			r.compared++
			if _, ok := a[k]; !ok {
				r.fail("proto-vs-go", ver+" "+k, fmt.Sprintf("in the descriptor embedded in api.pb.go (%s) but not declared in api.proto", w))
			}
		}
		c17GoBindings(r, ver, e)
		c17GRPCBehaviour(r, ver, e)
	}
	// clause: v3alpha is a wire-compatible superset of v3 — on the embedded descriptors and on the .proto sources
	for _, pair := range []struct {
		what   string
		v3, va ptree.Tree
		ok     bool
	}{{"descriptor", emb["v3"], emb["v3alpha"], true}, {"proto", src["v3"], src["v3alpha"], len(src) == 2}} {
		if !pair.ok {
			continue
		}
		a, b := pair.v3.Flatten(), pair.va.Flatten()
		for k, v := range a {
			if k == "package" || k == "go_package" || k == "imports" {
				continue
			}
			if strings.Contains(k, " field#") || strings.Contains(k, " value#") || strings.HasSuffix(k, " http#") {
				continue // declaration order and binding count are not part of wire compatibility
			}
			r.compared++
			want := v
			if strings.Contains(k, " http[") {
				want = strings.Replace(v, " /v3/", " /v3alpha/", 1)
				// the binding may sit at another index in v3alpha: look for it among all bindings of the method
				prefix := k[:strings.Index(k, " http[")]
				found := false
				for k2, v2 := range b {
					if strings.HasPrefix(k2, prefix+" http[") && v2 == want {
						found = true
					}
				}
				if !found {
					r.fail("superset-"+pair.what, k, fmt.Sprintf("v3 binding %q has no counterpart %q in v3alpha", v, want))
				}
				continue
			}
			if w, ok := b[k]; !ok {
				r.fail("superset-"+pair.what, k, fmt.Sprintf("present in v3 (%s) but missing from v3alpha", v))
			} else if w != want {
				r.fail("superset-"+pair.what, k, fmt.Sprintf("v3 has %q, v3alpha has %q", v, w))
			}
		}
	}
	// clause: resolver system identifiers equal the API enum numbers
	c17Systems(r, emb["v3"])
	r.notes["flat_entries"] = map[string]int{"v3_descriptor": len(emb["v3"].Flatten()), "v3alpha_descriptor": len(emb["v3alpha"].Flatten())}
	return r
}

// c17GRPCBehaviour invokes the generated bindings (in the dumper binary, which links the API package): every
// handler must announce and reach its own method, every client stub must ask for its own method.
func c17GRPCBehaviour(r *c17Result, ver string, t ptree.Tree) {
	out, err := exec.Command(filepath.Join(binDir(), "dump"+ver), "grpc").Output()
	if err != nil {
		core.Harness("C17: dump%s grpc: %v", ver, err)
	}
	var probe struct {
		Service string
		Rows    []struct {
			Method          string `json:"method"`
			HandlerAnnounce string `json:"handler_announces"`
			HandlerDirect   string `json:"handler_direct"`
			HandlerViaIcpt  string `json:"handler_via_icpt"`
			ClientInvokes   string `json:"client_invokes"`
		}
	}
	if err := json.Unmarshal(out, &probe); err != nil {
		core.Harness("C17: dump%s grpc: %v", ver, err)
	}
	seen := map[string]bool{}
	for _, row := range probe.Rows {
		seen[row.Method] = true
		r.states++
		r.compared += 4
		full := "/" + probe.Service + "/" + row.Method
		if row.HandlerAnnounce != full {
			r.fail("grpc-run", ver+" handler "+row.Method+" announces", fmt.Sprintf("interceptors see FullMethod %q, want %q", row.HandlerAnnounce, full))
		}
		if row.HandlerDirect != row.Method || row.HandlerViaIcpt != row.Method {
			r.fail("grpc-run", ver+" handler "+row.Method+" dispatches", fmt.Sprintf("reaches server method %q directly and %q through an interceptor", row.HandlerDirect, row.HandlerViaIcpt))
		}
		if row.ClientInvokes != full {
			r.fail("grpc-run", ver+" client "+row.Method+" invokes", fmt.Sprintf("%q, want %q", row.ClientInvokes, full))
		}
	}
	for _, s := range t.Services {
		if probe.Service != t.Package+"."+s.Name {
			r.fail("grpc-run", ver+" service name", fmt.Sprintf("%q, want %q", probe.Service, t.Package+"."+s.Name))
		}
		for _, m := range s.Methods {
			if !seen[m.Name] {
				r.fail("grpc-run", ver+" method "+m.Name, "declared in the service, absent from the running ServiceDesc and client")
			}
		}
	}
}

func goName(rel string) string { return strings.ReplaceAll(rel, ".", "_") }

// c17GoBindings checks api_grpc.pb.go and the struct tags of api.pb.go against the descriptor.
func c17GoBindings(r *c17Result, ver string, t ptree.Tree) {
	dir := filepath.Join(core.Repo, "api", ver)
	fset := token.NewFileSet()
	grpcFile, err := parser.ParseFile(fset, filepath.Join(dir, "api_grpc.pb.go"), nil, 0)
	if err != nil {
		core.Harness("C17: %v", err)
	}
	pbFile, err := parser.ParseFile(fset, filepath.Join(dir, "api.pb.go"), nil, 0)
	if err != nil {
		core.Harness("C17: %v", err)
	}
	consts := map[string]string{}
	ifaces := map[string]map[string][2]string{} // iface -> method -> (in, out)
	var descMethods []string
	descService := ""
	ast.Inspect(grpcFile, func(n ast.Node) bool {
		switch x := n.(type) {
		case *ast.ValueSpec:
			for i, nm := range x.Names {
				if i < len(x.Values) {
					if bl, ok := x.Values[i].(*ast.BasicLit); ok && bl.Kind == token.STRING {
						s, _ := strconv.Unquote(bl.Value)
						consts[nm.Name] = s
					}
					if cl, ok := x.Values[i].(*ast.CompositeLit); ok && strings.HasSuffix(nm.Name, "_ServiceDesc") {
						for _, el := range cl.Elts {
							kv, ok := el.(*ast.KeyValueExpr)
							if !ok {
								continue
							}
							switch fmt.Sprint(kv.Key) {
							case "ServiceName":
								if bl, ok := kv.Value.(*ast.BasicLit); ok {
									descService, _ = strconv.Unquote(bl.Value)
								}
							case "Methods", "Streams":
								if ml, ok := kv.Value.(*ast.CompositeLit); ok {
									for _, me := range ml.Elts {
										if mc, ok := me.(*ast.CompositeLit); ok {
											for _, f := range mc.Elts {
												if fkv, ok := f.(*ast.KeyValueExpr); ok && (fmt.Sprint(fkv.Key) == "MethodName" || fmt.Sprint(fkv.Key) == "StreamName") {
													if bl, ok := fkv.Value.(*ast.BasicLit); ok {
														s, _ := strconv.Unquote(bl.Value)
														descMethods = append(descMethods, s)
													}
												}
											}
										}
									}
								}
							}
						}
					}
				}
			}
		case *ast.TypeSpec:
			if it, ok := x.Type.(*ast.InterfaceType); ok {
				ms := map[string][2]string{}
				for _, m := range it.Methods.List {
					ft, ok := m.Type.(*ast.FuncType)
					if !ok || len(m.Names) == 0 {
						continue
					}
					in, out := "", ""
					if ft.Params != nil {
						for _, p := range ft.Params.List {
							if se, ok := p.Type.(*ast.StarExpr); ok {
								in = fmt.Sprint(se.X)
							}
						}
					}
					if ft.Results != nil && len(ft.Results.List) > 0 {
						if se, ok := ft.Results.List[0].Type.(*ast.StarExpr); ok {
							out = fmt.Sprint(se.X)
						}
					}
					ms[m.Names[0].Name] = [2]string{in, out}
				}
				ifaces[x.Name.Name] = ms
			}
		}
		return true
	})
	for _, s := range t.Services {
		r.states++
		if want := t.Package + "." + s.Name; descService != want {
			r.fail("grpc", ver+" ServiceDesc.ServiceName", fmt.Sprintf("%q, want %q", descService, want))
		}
		var want []string
		for _, m := range s.Methods {
			r.states++
			r.compared += 4
			want = append(want, m.Name)
			cn := s.Name + "_" + m.Name + "_FullMethodName"
			if got, w := consts[cn], "/"+t.Package+"."+s.Name+"/"+m.Name; got != w {
				r.fail("grpc", ver+" "+cn, fmt.Sprintf("%q, want %q", got, w))
			}
			for _, iface := range []string{s.Name + "Client", s.Name + "Server"} {
				sig, ok := ifaces[iface][m.Name]
				if !ok {
					r.fail("grpc", ver+" "+iface+"."+m.Name, "method declared in the service but missing from the generated interface")
					continue
				}
				if sig[0] != goName(m.Input) || sig[1] != goName(m.Output) {
					r.fail("grpc", ver+" "+iface+"."+m.Name, fmt.Sprintf("generated signature (%s) -> %s, descriptor says (%s) -> %s", sig[0], sig[1], goName(m.Input), goName(m.Output)))
				}
			}
		}
		for _, iface := range []string{s.Name + "Client", s.Name + "Server"} {
			for name := range ifaces[iface] {
				if strings.HasPrefix(name, "mustEmbed") {
					continue
				}
				found := false
				for _, w := range want {
					if w == name {
						found = true
					}
				}
				if !found {
					r.fail("grpc", ver+" "+iface+"."+name, "generated interface has a method the service does not declare")
				}
			}
		}
		got := append([]string(nil), descMethods...)
		sort.Strings(got)
		sort.Strings(want)
		if !reflect.DeepEqual(got, want) {
			r.fail("grpc", ver+" ServiceDesc.Methods", fmt.Sprintf("%v, want %v", got, want))
		}
	}
	// struct tags of api.pb.go
	type tagInfo struct {
		wire, label, name, enum string
		num                     int
		oneof                   bool
	}
	structs := map[string][]tagInfo{}
	ast.Inspect(pbFile, func(n ast.Node) bool {
		ts, ok := n.(*ast.TypeSpec)
		if !ok {
			return true
		}
		st, ok := ts.Type.(*ast.StructType)
		if !ok {
			return true
		}
		for _, f := range st.Fields.List {
			if f.Tag == nil {
				continue
			}
			raw, _ := strconv.Unquote(f.Tag.Value)
			tag := reflect.StructTag(raw).Get("protobuf")
			if tag == "" {
				continue
			}
			parts := strings.Split(tag, ",")
			if len(parts) < 3 {
				continue
			}
			ti := tagInfo{wire: parts[0], label: parts[2]}
			ti.num, _ = strconv.Atoi(parts[1])
			for _, p := range parts[3:] {
				switch {
				case strings.HasPrefix(p, "name="):
					ti.name = p[5:]
				case strings.HasPrefix(p, "enum="):
					ti.enum = p[5:]
				case p == "oneof":
					ti.oneof = true
				}
			}
			structs[ts.Name.Name] = append(structs[ts.Name.Name], ti)
		}
		return true
	})
	enumNames := map[string]bool{}
	var collectEnums func(prefix string, ms []ptree.Message, es []ptree.Enum)
	collectEnums = func(prefix string, ms []ptree.Message, es []ptree.Enum) {
		for _, e := range es {
			enumNames[prefix+e.Name] = true
		}
		for _, m := range ms {
			collectEnums(prefix+m.Name+".", m.Nested, m.Enums)
		}
	}
	collectEnums("", t.Messages, t.Enums)
	wireOf := func(typ string) string {
		switch typ {
		case "int32", "int64", "uint32", "uint64", "bool":
			return "varint"
		case "sint32":
			return "zigzag32"
		case "sint64":
			return "zigzag64"
		case "fixed32", "sfixed32", "float":
			return "fixed32"
		case "fixed64", "sfixed64", "double":
			return "fixed64"
		case "string", "bytes":
			return "bytes"
		}
		if enumNames[typ] {
			return "varint"
		}
		return "bytes"
	}
	var walk func(prefix string, ms []ptree.Message)
	walk = func(prefix string, ms []ptree.Message) {
		for _, m := range ms {
			gn := goName(prefix + m.Name)
			tags := structs[gn]
			byNum := map[int]tagInfo{}
			for _, ti := range tags {
				byNum[ti.num] = ti
			}
			for _, f := range m.Fields {
				r.states++
				r.compared++
				ti, ok := byNum[f.Number]
				key := ver + " struct " + gn + " field " + f.Name
				if f.Oneof != "" {
					continue // oneof members live in wrapper structs; the descriptor comparison covers them
				}
				if !ok {
					r.fail("go-struct", key, fmt.Sprintf("no struct field tagged with number %d", f.Number))
					continue
				}
				wantLabel := "opt"
				if f.Label == "repeated" {
					wantLabel = "rep"
				}
				if ti.name != f.Name || ti.label != wantLabel || ti.wire != wireOf(f.Type) {
					r.fail("go-struct", key, fmt.Sprintf("struct tag (%s,%d,%s,name=%s) does not match descriptor field (%s %s = %d)", ti.wire, ti.num, ti.label, ti.name, f.Label, f.Type, f.Number))
				}
				if enumNames[f.Type] && ti.enum != t.Package+"."+f.Type {
					r.fail("go-struct", key, fmt.Sprintf("struct tag enum=%s, descriptor says %s.%s", ti.enum, t.Package, f.Type))
				}
			}
			for _, ti := range tags {
				found := false
				for _, f := range m.Fields {
					if f.Number == ti.num {
						found = true
					}
				}
				if !found {
					r.fail("go-struct", ver+" struct "+gn+" number "+strconv.Itoa(ti.num), "struct has a tagged field the descriptor does not declare")
				}
			}
			walk(prefix+m.Name+".", m.Nested)
		}
	}
	walk("", t.Messages)
}

// c17Systems compares util/resolve's System constants with the System enum of /repo/api/v3.
// The harness is linked against /repo/api/v3 (replace directive), so the constants seen here are
// the ones the local API package defines; the names are checked against the descriptor dump.
func c17Systems(r *c17Result, v3 ptree.Tree) {
	want := map[string]int{}
	for _, e := range v3.Enums {
		if e.Name == "System" {
			for _, v := range e.Values {
				want[v.Name] = v.Number
			}
		}
	}
	for _, c := range []struct {
		name string
		got  resolve.System
		enum string
	}{{"UnknownSystem", resolve.UnknownSystem, "SYSTEM_UNSPECIFIED"}, {"NPM", resolve.NPM, "NPM"}, {"Maven", resolve.Maven, "MAVEN"}, {"PyPI", resolve.PyPI, "PYPI"}} {
		r.states++
		r.compared++
		w, ok := want[c.enum]
		if !ok {
			r.fail("systems", c.name, "API enum System has no value "+c.enum)
		} else if int(c.got) != w {
			r.fail("systems", c.name, fmt.Sprintf("resolve.%s = %d but api System.%s = %d", c.name, int(c.got), c.enum, w))
		}
	}
	// the pinned API module that util/resolve's own go.mod selects must agree as well
	pinned := c17PinnedSystemNumbers()
	for name, num := range pinned {
		r.states++
		r.compared++
		if w, ok := want[name]; ok && w != num {
			r.fail("systems", "pinned "+name, fmt.Sprintf("the deps.dev/api/v3 version pinned by util/resolve/go.mod has System.%s = %d, /repo/api/v3 has %d", name, num, w))
		}
	}
	r.notes["pinned_api_enum_values_checked"] = len(pinned)
}

// c17PinnedSystemNumbers reads the System enum numbers from the api.pb.go of the
// module version that util/resolve/go.mod requires (module cache), by parsing its constants.
func c17PinnedSystemNumbers() map[string]int {
	out := map[string]int{}
	b, err := os.ReadFile(filepath.Join(core.Repo, "util/resolve/go.mod"))
	if err != nil {
		return out
	}
	ver := ""
	for _, line := range strings.Split(string(b), "\n") {
		f := strings.Fields(line)
		if len(f) >= 2 && f[0] == "deps.dev/api/v3" {
			ver = f[1]
		}
	}
	if ver == "" {
		return out
	}
	gomod := os.Getenv("GOMODCACHE")
	if gomod == "" {
		home, _ := os.UserHomeDir()
		gomod = filepath.Join(home, "go", "pkg", "mod")
	}
	path := filepath.Join(gomod, "deps.dev", "api", "v3@"+ver, "api.pb.go")
	fset := token.NewFileSet()
	f, err := parser.ParseFile(fset, path, nil, 0)
	if err != nil {
		return out
	}
	ast.Inspect(f, func(n ast.Node) bool {
		vs, ok := n.(*ast.ValueSpec)
		if !ok || len(vs.Names) != 1 || len(vs.Values) != 1 {
			return true
		}
		if id, ok := vs.Type.(*ast.Ident); !ok || id.Name != "System" {
			return true
		}
		if bl, ok := vs.Values[0].(*ast.BasicLit); ok && bl.Kind == token.INT {
			n, _ := strconv.Atoi(bl.Value)
			out[strings.TrimPrefix(vs.Names[0].Name, "System_")] = n
		}
		return true
	})
	return out
}

// C17 decides the API compatibility property by complete enumeration.
func C17(tier string) {
	run := core.NewRun("C17", tier, c17Replay)
	run.Cov["rule"] = "complete enumeration of every declaration (service, rpc with input/output/streaming/HTTP bindings, message, field number/type/cardinality/oneof, nested type, enum value) of api/v3 and api/v3alpha from (i) the descriptors embedded in the Go packages and (ii) the .proto files (own proto3 parser); oracle: v3 is simulated by v3alpha node by node (HTTP paths modulo the version prefix), .proto == embedded descriptor in both directions incl. declaration order, generated gRPC interfaces/ServiceDesc/FullMethodName constants and struct tags == descriptor, resolve.System constants == api System enum numbers (local and pinned module)"
	res := c17Evaluate()
	for w, d := range res.fails {
		run.Fail(w, d)
	}
	run.Cov["states"] = res.states
	run.Cov["transitions"] = res.compared
	run.Cov["traces_validated_against_impl"] = res.compared
	run.Cov["evaluations"] = res.compared
	run.Cov["distinct_nontrivial"] = res.states
	for k, v := range res.notes {
		run.Cov[k] = v
	}
	run.Outcome("v3")
	run.Outcome("v3alpha")
	run.Sample(map[string]any{"entry": "message Package.Version field is_default number", "v3": "2", "v3alpha": "2"})
	run.Assumptions = []string{"the proto3 subset parser rejects constructs it does not model (maps, reserved, field options), so an unmodelled construct is reported rather than ignored"}
	run.Finish()
}

func c17Replay(w string) (bool, string) {
	res := c17Evaluate()
	d, bad := res.fails[w]
	return !bad, d
}
