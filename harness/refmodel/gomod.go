// Package refmodel holds reference orderings: golang.org/x/mod/semver for Go, and transcriptions of the
// published Gem::Version and NuGet SemVer2 algorithms where no runtime exists in the sandbox.
package refmodel

import (
	xsemver "golang.org/x/mod/semver"
)

// GoValid / GoCompare / GoCanonical wrap golang.org/x/mod/semver.
func GoValid(v string) bool       { return xsemver.IsValid(v) }
func GoCompare(a, b string) int   { return xsemver.Compare(a, b) }
func GoCanonical(v string) string { return xsemver.Canonical(v) }
