package refmodel

import (
	"regexp"
	"strconv"
	"strings"
)

// Transcription of Gem::Version (rubygems/version.rb): validity pattern, segments,
// canonical_segments and <=>. Kept deliberately literal.

var gemPattern = regexp.MustCompile(`\A\s*([0-9]+(?:\.[0-9a-zA-Z]+)*(-[0-9A-Za-z-]+(\.[0-9A-Za-z-]+)*)?)?\s*\z`)
var gemSegment = regexp.MustCompile(`[0-9]+|[a-zA-Z]+`)

type gemSeg struct {
	isNum bool
	num   int64
	str   string
}

// GemValid reports Gem::Version.correct?.
func GemValid(v string) bool { return gemPattern.MatchString(v) }

// GemNormal returns the version string as Gem::Version#to_s prints it.
func GemNormal(v string) string {
	s := strings.TrimSpace(v)
	if s == "" {
		s = "0"
	}
	return strings.ReplaceAll(s, "-", ".pre.")
}

func gemSegments(v string) ([]gemSeg, bool) {
	var out []gemSeg
	for _, m := range gemSegment.FindAllString(GemNormal(v), -1) {
		if m[0] >= '0' && m[0] <= '9' {
			n, err := strconv.ParseInt(m, 10, 64)
			if err != nil {
				return nil, false // Ruby has big integers; out of the model's range
			}
			out = append(out, gemSeg{isNum: true, num: n})
		} else {
			out = append(out, gemSeg{str: m})
		}
	}
	return out, true
}

// canonical segments: split at the first string segment; drop trailing zeros of both parts.
func gemCanonical(segs []gemSeg) []gemSeg {
	split := len(segs)
	for i, s := range segs {
		if !s.isNum {
			split = i
			break
		}
	}
	trim := func(p []gemSeg) []gemSeg {
		for len(p) > 0 && p[len(p)-1].isNum && p[len(p)-1].num == 0 {
			p = p[:len(p)-1]
		}
		return p
	}
	return append(append([]gemSeg(nil), trim(segs[:split])...), trim(segs[split:])...)
}

// GemCompare is Gem::Version#<=> ; ok=false if a number exceeds the model's range.
func GemCompare(a, b string) (int, bool) {
	sa, ok1 := gemSegments(a)
	sb, ok2 := gemSegments(b)
	if !ok1 || !ok2 {
		return 0, false
	}
	l, r := gemCanonical(sa), gemCanonical(sb)
	n := len(l)
	if len(r) > n {
		n = len(r)
	}
	for i := 0; i < n; i++ {
		lh, rh := gemSeg{isNum: true}, gemSeg{isNum: true}
		if i < len(l) {
			lh = l[i]
		}
		if i < len(r) {
			rh = r[i]
		}
		if lh == rh {
			continue
		}
		if !lh.isNum && rh.isNum {
			return -1, true
		}
		if lh.isNum && !rh.isNum {
			return 1, true
		}
		if lh.isNum {
			if lh.num < rh.num {
				return -1, true
			}
			return 1, true
		}
		if lh.str < rh.str {
			return -1, true
		}
		return 1, true
	}
	return 0, true
}
