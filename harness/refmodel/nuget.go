package refmodel

import (
	"strconv"
	"strings"
)

// Transcription of NuGet.Versioning's NuGetVersion parsing and the default
// (SemVer 2.0 + legacy 4th part) VersionComparer.

type nugetVer struct {
	nums  [4]int64
	pre   []string
	valid bool
}

func nugetParse(s string) nugetVer {
	s = strings.TrimSpace(s)
	if i := strings.IndexByte(s, '+'); i >= 0 {
		meta := s[i+1:]
		if meta == "" {
			return nugetVer{}
		}
		for _, l := range strings.Split(meta, ".") {
			if !nugetIdent(l) {
				return nugetVer{}
			}
		}
		s = s[:i]
	}
	pre := ""
	hasPre := false
	if i := strings.IndexByte(s, '-'); i >= 0 {
		pre, s, hasPre = s[i+1:], s[:i], true
	}
	parts := strings.Split(s, ".")
	if len(parts) < 1 || len(parts) > 4 {
		return nugetVer{}
	}
	var v nugetVer
	for i, p := range parts {
		if p == "" {
			return nugetVer{}
		}
		for _, c := range p {
			if c < '0' || c > '9' {
				return nugetVer{}
			}
		}
		n, err := strconv.ParseInt(p, 10, 32)
		if err != nil {
			return nugetVer{}
		}
		v.nums[i] = n
	}
	if hasPre {
		if pre == "" {
			return nugetVer{}
		}
		for _, l := range strings.Split(pre, ".") {
			if !nugetIdent(l) {
				return nugetVer{}
			}
			// SemVer 2.0: numeric identifiers must not have leading zeros
			if len(l) > 1 && l[0] == '0' && allDigits(l) {
				return nugetVer{}
			}
			v.pre = append(v.pre, l)
		}
	}
	v.valid = true
	return v
}

func nugetIdent(l string) bool {
	if l == "" {
		return false
	}
	for _, c := range l {
		if !(c >= '0' && c <= '9' || c >= 'a' && c <= 'z' || c >= 'A' && c <= 'Z' || c == '-') {
			return false
		}
	}
	return true
}

func allDigits(s string) bool {
	for _, c := range s {
		if c < '0' || c > '9' {
			return false
		}
	}
	return s != ""
}

// NuGetValid reports whether NuGetVersion.TryParse accepts the string (SemVer 2.0 rules for labels).
func NuGetValid(s string) bool { return nugetParse(s).valid }

// NuGetNormal is ToNormalizedString: numbers without leading zeros, 4th part only if non-zero, no metadata.
func NuGetNormal(s string) string {
	v := nugetParse(s)
	out := strconv.FormatInt(v.nums[0], 10) + "." + strconv.FormatInt(v.nums[1], 10) + "." + strconv.FormatInt(v.nums[2], 10)
	if v.nums[3] != 0 {
		out += "." + strconv.FormatInt(v.nums[3], 10)
	}
	if len(v.pre) > 0 {
		out += "-" + strings.Join(v.pre, ".")
	}
	return out
}

// NuGetCompare is VersionComparer.Default.Compare.
func NuGetCompare(a, b string) int {
	x, y := nugetParse(a), nugetParse(b)
	for i := 0; i < 4; i++ {
		if x.nums[i] != y.nums[i] {
			if x.nums[i] < y.nums[i] {
				return -1
			}
			return 1
		}
	}
	switch {
	case len(x.pre) == 0 && len(y.pre) == 0:
		return 0
	case len(x.pre) == 0:
		return 1
	case len(y.pre) == 0:
		return -1
	}
	for i := 0; i < len(x.pre) && i < len(y.pre); i++ {
		l, r := x.pre[i], y.pre[i]
		// NuGet: a label is numeric iff int.TryParse (32 bit) accepts it
		li, e1 := strconv.ParseInt(l, 10, 32)
		ri, e2 := strconv.ParseInt(r, 10, 32)
		ln, rn := e1 == nil && allDigits(l), e2 == nil && allDigits(r)
		switch {
		case ln && rn:
			if li != ri {
				if li < ri {
					return -1
				}
				return 1
			}
		case ln:
			return -1
		case rn:
			return 1
		default:
			if c := strings.Compare(strings.ToUpper(l), strings.ToUpper(r)); c != 0 {
				return c
			}
		}
	}
	switch {
	case len(x.pre) < len(y.pre):
		return -1
	case len(x.pre) > len(y.pre):
		return 1
	}
	return 0
}
