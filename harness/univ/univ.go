// Package univ describes small package universes in a plain, serialisable form,
// loads them into real clients and enumerates them under a deviation bound.
package univ

import (
	"encoding/json"
	"fmt"
	"sort"
	"strings"

	"deps.dev/util/resolve"
	"deps.dev/util/resolve/dep"
	"deps.dev/util/resolve/version"
)

// Req is one requirement of a version.
type Req struct {
	Pkg string `json:"p"`
	Ver string `json:"v"`
	// dependency type
	Dev    bool   `json:"dev,omitempty"`
	Opt    bool   `json:"opt,omitempty"`
	Test   bool   `json:"test,omitempty"`
	Scope  string `json:"scope,omitempty"`
	Alias  string `json:"alias,omitempty"`  // KnownAs
	Env    string `json:"env,omitempty"`    // PEP 508 marker
	Extras string `json:"extras,omitempty"` // EnabledDependencies
	Excl   string `json:"excl,omitempty"`   // MavenExclusions
	Class  string `json:"class,omitempty"`  // MavenClassifier
	AType  string `json:"atype,omitempty"`  // MavenArtifactType
	Origin string `json:"origin,omitempty"` // MavenDependencyOrigin
	// TwinDevOpt: the package is listed a second time, in devDependencies and optionalDependencies at once
	// (npm), with the same requirement text.
	TwinDevOpt bool `json:"twin,omitempty"`
	// TwinAlias: the package is listed a second time, as a regular dependency under the alias x (x -> npm:pkg@same
	// range): two distinct declarations of one version that share package and requirement text and differ in the
	// folder name (and in the section, when the plain one is optional or dev).
	TwinAlias bool `json:"twinalias,omitempty"`
}

// Expanded returns the declarations a requirement stands for in the oracle's terms: itself, and its alias twin.
func (r Req) Expanded() []Req {
	if !r.TwinAlias {
		return []Req{r}
	}
	a, b := r, r
	a.TwinAlias, b.TwinAlias = false, false
	b.Alias = "x"
	b.Opt, b.Dev, b.Scope = false, false, "" // the alias entry sits in "dependencies" whatever section the plain one is in
	return []Req{a, b}
}

// Ver is one concrete version with its attributes and requirements.
type Ver struct {
	Pkg     string `json:"p"`
	Ver     string `json:"v"`
	Tags    string `json:"tags,omitempty"`
	Blocked bool   `json:"blocked,omitempty"`
	Derived string `json:"derived,omitempty"`
	Reqs    []Req  `json:"reqs,omitempty"`
}

// Universe is a list of versions (in insertion order) of one system.
type Universe struct {
	Sys  string `json:"sys"` // NPM, Maven, PyPI
	Vers []Ver  `json:"vers"`
}

// System returns the resolve.System.
func (u Universe) System() resolve.System {
	switch u.Sys {
	case "NPM":
		return resolve.NPM
	case "Maven":
		return resolve.Maven
	case "PyPI":
		return resolve.PyPI
	}
	return resolve.UnknownSystem
}

// Encode returns the canonical JSON form (used in witnesses).
func (u Universe) Encode() string {
	b, _ := json.Marshal(u)
	return string(b)
}

// Decode parses Encode's output.
func Decode(s string) (Universe, error) {
	var u Universe
	err := json.Unmarshal([]byte(s), &u)
	return u, err
}

// Clone deep-copies the universe.
func (u Universe) Clone() Universe {
	c := Universe{Sys: u.Sys, Vers: make([]Ver, len(u.Vers))}
	for i, v := range u.Vers {
		c.Vers[i] = v
		c.Vers[i].Reqs = append([]Req(nil), v.Reqs...)
	}
	return c
}

// DepType builds the dep.Type of a requirement.
func (r Req) DepType() dep.Type {
	var t dep.Type
	if r.Dev {
		t.AddAttr(dep.Dev, "")
	}
	if r.Opt {
		t.AddAttr(dep.Opt, "")
	}
	if r.Test {
		t.AddAttr(dep.Test, "")
	}
	if r.Scope != "" {
		t.AddAttr(dep.Scope, r.Scope)
	}
	if r.Alias != "" {
		t.AddAttr(dep.KnownAs, r.Alias)
	}
	if r.Env != "" {
		t.AddAttr(dep.Environment, r.Env)
	}
	if r.Extras != "" {
		t.AddAttr(dep.EnabledDependencies, r.Extras)
	}
	if r.Excl != "" {
		t.AddAttr(dep.MavenExclusions, r.Excl)
	}
	if r.Class != "" {
		t.AddAttr(dep.MavenClassifier, r.Class)
	}
	if r.AType != "" {
		t.AddAttr(dep.MavenArtifactType, r.AType)
	}
	if r.Origin != "" {
		t.AddAttr(dep.MavenDependencyOrigin, r.Origin)
	}
	return t
}

// VK returns the concrete version key of a version.
func (u Universe) VK(pkg, ver string) resolve.VersionKey {
	return resolve.VersionKey{PackageKey: resolve.PackageKey{System: u.System(), Name: pkg}, VersionType: resolve.Concrete, Version: ver}
}

// ReqVK returns the requirement version key of a requirement.
func (u Universe) ReqVK(r Req) resolve.VersionKey {
	return resolve.VersionKey{PackageKey: resolve.PackageKey{System: u.System(), Name: r.Pkg}, VersionType: resolve.Requirement, Version: r.Ver}
}

// Attr builds the attribute set of a version.
func (v Ver) Attr() version.AttrSet {
	var a version.AttrSet
	if v.Tags != "" {
		a.SetAttr(version.Tags, v.Tags)
	}
	if v.Blocked {
		a.SetAttr(version.Blocked, "")
	}
	if v.Derived != "" {
		a.SetAttr(version.DerivedFrom, v.Derived)
	}
	return a
}

// Requirements builds fresh requirement values for a version.
func (u Universe) Requirements(v Ver) []resolve.RequirementVersion {
	out := make([]resolve.RequirementVersion, 0, len(v.Reqs))
	for _, r := range v.Reqs {
		out = append(out, resolve.RequirementVersion{VersionKey: u.ReqVK(r), Type: r.DepType()})
		if r.TwinDevOpt {
			t := r
			t.Dev, t.Opt, t.TwinDevOpt = true, true, false
			out = append(out, resolve.RequirementVersion{VersionKey: u.ReqVK(t), Type: t.DepType()})
		}
		if r.TwinAlias {
			t := r.Expanded()[1]
			out = append(out, resolve.RequirementVersion{VersionKey: u.ReqVK(t), Type: t.DepType()})
		}
	}
	return out
}

// Client loads the universe into a fresh LocalClient; order (if non-nil) is a
// permutation of version indices giving the AddVersion order.
func (u Universe) Client(order []int) *resolve.LocalClient {
	lc := resolve.NewLocalClient()
	add := func(v Ver) {
		lc.AddVersion(resolve.Version{VersionKey: u.VK(v.Pkg, v.Ver), AttrSet: v.Attr()}, u.Requirements(v))
	}
	if order == nil {
		for _, v := range u.Vers {
			add(v)
		}
		return lc
	}
	for _, i := range order {
		add(u.Vers[i])
	}
	return lc
}

// Find returns the version record.
func (u Universe) Find(pkg, ver string) (Ver, bool) {
	for _, v := range u.Vers {
		if v.Pkg == pkg && v.Ver == ver {
			return v, true
		}
	}
	return Ver{}, false
}

// Packages lists the package names that have versions.
func (u Universe) Packages() []string {
	seen := map[string]bool{}
	var out []string
	for _, v := range u.Vers {
		if !seen[v.Pkg] {
			seen[v.Pkg] = true
			out = append(out, v.Pkg)
		}
	}
	sort.Strings(out)
	return out
}

// Snapshot renders everything a client reports for the universe's packages,
// versions and requirement strings, in the client's own order: the byte-exact
// observable state used by the no-write invariant.
func Snapshot(lc *resolve.LocalClient, u Universe, extraReqs []resolve.VersionKey) string {
	var sb strings.Builder
	pks := make([]resolve.PackageKey, 0, len(lc.PackageVersions))
	for pk := range lc.PackageVersions {
		pks = append(pks, pk)
	}
	sort.Slice(pks, func(i, j int) bool { return pks[i].Name < pks[j].Name })
	for _, pk := range pks {
		fmt.Fprintf(&sb, "%s:[", pk.Name)
		for _, v := range lc.PackageVersions[pk] {
			fmt.Fprintf(&sb, "%s%s ", v.Version, v.AttrSet.String())
		}
		sb.WriteString("]\n")
	}
	for _, v := range u.Vers {
		rs, err := lc.Requirements(ctxBG, u.VK(v.Pkg, v.Ver))
		fmt.Fprintf(&sb, "req %s@%s:", v.Pkg, v.Ver)
		if err != nil {
			sb.WriteString(" !" + err.Error())
		}
		for _, r := range rs {
			fmt.Fprintf(&sb, " %s@%s{%s}", r.Name, r.Version, TypeSig(r.Type))
		}
		sb.WriteString("\n")
	}
	for _, rk := range extraReqs {
		ms, err := lc.MatchingVersions(ctxBG, rk)
		fmt.Fprintf(&sb, "match %s@%s:", rk.Name, rk.Version)
		if err != nil {
			sb.WriteString(" !" + err.Error())
		}
		for _, m := range ms {
			sb.WriteString(" " + m.Version)
		}
		sb.WriteString("\n")
	}
	return sb.String()
}

// AllReqKeys lists the distinct requirement keys occurring in the universe.
func (u Universe) AllReqKeys() []resolve.VersionKey {
	seen := map[resolve.VersionKey]bool{}
	var out []resolve.VersionKey
	for _, v := range u.Vers {
		for _, r := range v.Reqs {
			k := u.ReqVK(r)
			if !seen[k] {
				seen[k] = true
				out = append(out, k)
			}
		}
	}
	return out
}

// MustFind returns the version record for a (package, version) pair (zero value if absent).
func (u Universe) MustFind(pv [2]string) Ver {
	v, _ := u.Find(pv[0], pv[1])
	return v
}

var allDepKeys = []dep.AttrKey{dep.Dev, dep.Opt, dep.Test, dep.XTest, dep.Framework, dep.Scope, dep.MavenClassifier, dep.MavenArtifactType,
	dep.MavenDependencyOrigin, dep.EnabledDependencies, dep.KnownAs, dep.MavenExclusions, dep.Environment, dep.Selector}

// TypeSig renders a dependency type through every accessor: String follows the key bitmask while
// GetAttr reads the value map, so a value written into a shared map without its key bit shows only here.
func TypeSig(t dep.Type) string {
	var sb strings.Builder
	sb.WriteString(t.String())
	sb.WriteString("|")
	for _, k := range allDepKeys {
		if v, ok := t.GetAttr(k); ok {
			fmt.Fprintf(&sb, "%d=%q,", int(k), v)
		}
	}
	return sb.String()
}
