package univ

import (
	"context"
	"sort"
	"strings"
)

var ctxBG = context.Background()

// Slot is one place where the base universe can deviate.
type Slot struct {
	Options  int // number of alternatives (each costs one deviation)
	Requires int // index of a slot that must have been picked, or -1
}

// Pick is one applied deviation.
type Pick struct{ Slot, Opt int }

// Enumerate calls f with every set of picks of size <= max (slots strictly
// increasing; a slot with Requires >= 0 only if that slot is picked). f must
// not retain picks.
func Enumerate(slots []Slot, max int, f func(picks []Pick)) {
	picks := make([]Pick, 0, max)
	picked := make([]bool, len(slots))
	var rec func(start int)
	rec = func(start int) {
		f(picks)
		if len(picks) == max {
			return
		}
		for s := start; s < len(slots); s++ {
			if r := slots[s].Requires; r >= 0 && !picked[r] {
				continue
			}
			picked[s] = true
			for o := 0; o < slots[s].Options; o++ {
				picks = append(picks, Pick{s, o})
				rec(s + 1)
				picks = picks[:len(picks)-1]
			}
			picked[s] = false
		}
	}
	rec(0)
}

// Space is a family of universes: a base (possibly with a requirement
// template), a list of slots, and a builder.
type Space struct {
	Name  string // system name
	Base  string // "empty" or the template name
	Slots []Slot
	// Build returns the universe for the picks, or ok=false if the picks are
	// pointless (a deviation on a version no requirement path from the root reaches).
	Build func(picks []Pick) (u Universe, ok bool)
	// Describe names a (slot, option): kind is req, decor, ver, pkg or mgmt; dep is the dependent
	// "pkg@ver" (req/decor), target the package concerned, option the requirement text or decoration.
	Describe func(slot, opt int) (kind, dep, target, option string)
}

// EnumerateFocused is Enumerate restricted to the (slot, option) pairs keep accepts: a deeper
// bound over the part of the space that exercises one mechanism.
func (sp *Space) EnumerateFocused(max int, keep func(kind, dep, target, option string) bool, f func(picks []Pick)) {
	allowed := make([][]int, len(sp.Slots))
	for s := range sp.Slots {
		for o := 0; o < sp.Slots[s].Options; o++ {
			if keep(sp.Describe(s, o)) {
				allowed[s] = append(allowed[s], o)
			}
		}
	}
	picks := make([]Pick, 0, max)
	picked := make([]bool, len(sp.Slots))
	var rec func(start int)
	rec = func(start int) {
		f(picks)
		if len(picks) == max {
			return
		}
		for s := start; s < len(sp.Slots); s++ {
			if len(allowed[s]) == 0 {
				continue
			}
			if r := sp.Slots[s].Requires; r >= 0 && !picked[r] {
				continue
			}
			picked[s] = true
			for _, o := range allowed[s] {
				picks = append(picks, Pick{s, o})
				rec(s + 1)
				picks = picks[:len(picks)-1]
			}
			picked[s] = false
		}
	}
	rec(0)
}

var _ = 0

// reachablePkgs computes package-level reachability from the root through requirement edges.
func reachablePkgs(root string, edges [][2]string) map[string]bool {
	r := map[string]bool{root: true}
	for changed := true; changed; {
		changed = false
		for _, e := range edges {
			if r[e[0]] && !r[e[1]] {
				r[e[1]] = true
				changed = true
			}
		}
	}
	return r
}

// sysDef describes one system's alphabets.
type sysDef struct {
	name     string
	vers     []Ver    // base versions; index 0 is the root
	targets  []string // packages a requirement may point at
	reqs     []string // requirement alphabet
	decor    []string // single-slot decorations of a requirement
	apply    func(r *Req, d string)
	verDecor []string // per-version decorations (not on the root)
	applyVer func(u *Universe, vi int, d string)
	pkgDecor []string // per-target-package decorations
	applyPkg func(u *Universe, pkg string, d string)
	mgmt     []string // root-managed versions per target (Maven)
	valid    func(u *Universe) bool
}

// tmplReq is one requirement of a template: dependent version index, requirement.
type tmplReq struct {
	dep int
	req Req
}

func newSpace(def sysDef, base string, tmpl []tmplReq) *Space {
	sp := &Space{Name: def.name, Base: base}
	type reqSlot struct {
		dep    int
		target string
		tmpl   int // index into tmpl or -1
	}
	var reqSlots []reqSlot
	root := def.vers[0].Pkg
	for di := range def.vers {
		for _, t := range def.targets {
			ti := -1
			for k, tr := range tmpl {
				if tr.dep == di && tr.req.Pkg == t {
					ti = k
				}
			}
			opts := len(def.reqs)
			if ti >= 0 {
				opts++ // one more alternative: remove the template requirement
			}
			reqSlots = append(reqSlots, reqSlot{di, t, ti})
			sp.Slots = append(sp.Slots, Slot{Options: opts, Requires: -1})
		}
	}
	nReq := len(reqSlots)
	// decoration slots: available if the requirement slot was picked or the template fills it
	for i := 0; i < nReq; i++ {
		req := i
		if reqSlots[i].tmpl >= 0 {
			req = -1
		}
		sp.Slots = append(sp.Slots, Slot{Options: len(def.decor), Requires: req})
	}
	verBase := len(sp.Slots)
	for range def.vers[1:] {
		sp.Slots = append(sp.Slots, Slot{Options: len(def.verDecor), Requires: -1})
	}
	pkgBase := len(sp.Slots)
	for range def.targets {
		sp.Slots = append(sp.Slots, Slot{Options: len(def.pkgDecor), Requires: -1})
	}
	mgmtBase := len(sp.Slots)
	for range def.targets {
		sp.Slots = append(sp.Slots, Slot{Options: len(def.mgmt), Requires: -1})
	}
	sp.Describe = func(slot, opt int) (kind, dep, target, option string) {
		switch {
		case slot < nReq:
			rs := reqSlots[slot]
			o := "<remove>"
			if opt < len(def.reqs) {
				o = def.reqs[opt]
			}
			return "req", def.vers[rs.dep].Pkg + "@" + def.vers[rs.dep].Ver, rs.target, o
		case slot < verBase:
			rs := reqSlots[slot-nReq]
			return "decor", def.vers[rs.dep].Pkg + "@" + def.vers[rs.dep].Ver, rs.target, def.decor[opt]
		case slot < pkgBase:
			v := def.vers[1+slot-verBase]
			return "ver", v.Pkg + "@" + v.Ver, v.Pkg, def.verDecor[opt]
		case slot < mgmtBase:
			return "pkg", "", def.targets[slot-pkgBase], def.pkgDecor[opt]
		}
		return "mgmt", def.vers[0].Pkg + "@" + def.vers[0].Ver, def.targets[slot-mgmtBase], def.mgmt[opt]
	}
	sp.Build = func(picks []Pick) (Universe, bool) {
		u := Universe{Sys: def.name, Vers: make([]Ver, len(def.vers))}
		copy(u.Vers, def.vers)
		// requirement per slot: start from the template
		slotReq := make([]*Req, nReq)
		for i, rs := range reqSlots {
			if rs.tmpl >= 0 {
				r := tmpl[rs.tmpl].req
				slotReq[i] = &r
			}
		}
		for _, p := range picks {
			switch {
			case p.Slot < nReq:
				rs := reqSlots[p.Slot]
				if p.Opt == len(def.reqs) {
					slotReq[p.Slot] = nil // removed
				} else if slotReq[p.Slot] != nil && slotReq[p.Slot].Ver == def.reqs[p.Opt] {
					return u, false // same as the template: not a deviation
				} else {
					slotReq[p.Slot] = &Req{Pkg: rs.target, Ver: def.reqs[p.Opt]}
				}
			case p.Slot < verBase:
				r := slotReq[p.Slot-nReq]
				if r == nil {
					return u, false
				}
				def.apply(r, def.decor[p.Opt])
			}
		}
		var edges [][2]string
		for i, r := range slotReq {
			if r != nil {
				d := reqSlots[i].dep
				u.Vers[d].Reqs = append(u.Vers[d].Reqs, *r)
				edges = append(edges, [2]string{def.vers[d].Pkg, r.Pkg})
			}
		}
		for _, p := range picks {
			switch {
			case p.Slot >= verBase && p.Slot < pkgBase:
				def.applyVer(&u, 1+p.Slot-verBase, def.verDecor[p.Opt])
			case p.Slot >= pkgBase && p.Slot < mgmtBase:
				def.applyPkg(&u, def.targets[p.Slot-pkgBase], def.pkgDecor[p.Opt])
			case p.Slot >= mgmtBase:
				u.Vers[0].Reqs = append(u.Vers[0].Reqs, Req{Pkg: def.targets[p.Slot-mgmtBase], Ver: def.mgmt[p.Opt], Origin: "management"})
			}
		}
		if def.valid != nil && !def.valid(&u) {
			return u, false
		}
		reach := reachablePkgs(root, edges)
		for _, p := range picks {
			switch {
			case p.Slot < verBase:
				s := p.Slot
				if s >= nReq {
					s -= nReq
				}
				if !reach[def.vers[reqSlots[s].dep].Pkg] {
					return u, false
				}
			case p.Slot < pkgBase:
				if !reach[def.vers[1+p.Slot-verBase].Pkg] {
					return u, false
				}
			case p.Slot < mgmtBase:
				if !reach[def.targets[p.Slot-pkgBase]] {
					return u, false
				}
			default:
				if !reach[def.targets[p.Slot-mgmtBase]] {
					return u, false
				}
			}
		}
		return u, true
	}
	return sp
}

func verIndex(vers []Ver, pkg, ver string) int {
	for i, v := range vers {
		if v.Pkg == pkg && v.Ver == ver {
			return i
		}
	}
	panic("no version " + pkg + "@" + ver)
}

// ---------------- npm ----------------

// NPMReqs is the requirement alphabet; NPMSat the hand satisfaction table over the version alphabet.
var NPMReqs = []string{"^1.0.0", "^2.0.0", "*", "1.0.0", "latest", ">=1.1.0", ">=2.0.0-rc.0"}

// NPMZeroReqs is the requirement alphabet of the zero-major / twin-spelling family.
var NPMZeroReqs = []string{"^0.0.3", "~0.0.3", "^0.0", "^0", "0.0.x", "*", "0.0.3", "^1.0.0"}

// NPMSat covers both version alphabets: {1.0.0, 1.1.0, 2.0.0-rc.1, 2.0.0} and, for the zero family,
// {0.0.3, 0.0.4, 0.1.0, 1.0.0, 1.0.0+b} (node-semver: ^0.0.z is exactly 0.0.z, ~0.0.z and ^0.0 are 0.0.*, ^0 is
// 0.*; build metadata is ignored, so 1.0.0+b satisfies whatever 1.0.0 does).
var NPMSat = map[string]map[string]bool{
	"^1.0.0":       {"1.0.0": true, "1.1.0": true, "1.0.0+b": true},
	"^2.0.0":       {"2.0.0": true},
	"*":            {"1.0.0": true, "1.1.0": true, "2.0.0": true, "0.0.3": true, "0.0.4": true, "0.1.0": true, "1.0.0+b": true},
	"1.0.0":        {"1.0.0": true, "1.0.0+b": true},
	">=1.1.0":      {"1.1.0": true, "2.0.0": true},
	">=2.0.0-rc.0": {"2.0.0-rc.1": true, "2.0.0": true},
	"^0.0.3":       {"0.0.3": true},
	"~0.0.3":       {"0.0.3": true, "0.0.4": true},
	"^0.0":         {"0.0.3": true, "0.0.4": true},
	"^0":           {"0.0.3": true, "0.0.4": true, "0.1.0": true},
	"0.0.x":        {"0.0.3": true, "0.0.4": true},
	"0.0.3":        {"0.0.3": true},
}

// NPMOrder is the ascending order of the version alphabets; 1.0.0 and 1.0.0+b have one precedence.
var NPMOrder = map[string]int{"0.0.3": -3, "0.0.4": -2, "0.1.0": -1, "1.0.0": 1, "1.0.0+b": 1, "1.1.0": 2, "2.0.0-rc.1": 3, "2.0.0": 4}

func npmDef() sysDef {
	return sysDef{
		name: "NPM",
		vers: []Ver{
			{Pkg: "r", Ver: "1.0.0", Tags: "latest"},
			{Pkg: "a", Ver: "1.0.0"}, {Pkg: "a", Ver: "1.1.0"}, {Pkg: "a", Ver: "2.0.0", Tags: "latest"},
			{Pkg: "b", Ver: "1.0.0"}, {Pkg: "b", Ver: "2.0.0-rc.1"}, {Pkg: "b", Ver: "2.0.0", Tags: "latest"},
			{Pkg: "c", Ver: "1.0.0"}, {Pkg: "c", Ver: "2.0.0", Tags: "latest"},
		},
		targets: []string{"a", "b", "c"},
		reqs:    NPMReqs,
		decor:   []string{"opt", "dev", "peer", "bundle", "alias", "twin-devopt"},
		apply: func(r *Req, d string) {
			switch d {
			case "opt":
				r.Opt = true
			case "dev":
				r.Dev = true
			case "peer":
				r.Scope = "peer"
			case "bundle":
				r.Scope = "bundle"
			case "alias":
				r.Alias = "x"
			case "alias-c":
				r.Alias = "c" // the alias spells the name of a real package
			case "twin-devopt":
				r.TwinDevOpt = true
			case "twin-alias":
				r.TwinAlias = true
			case "twin-alias-opt":
				// optionalDependencies {pkg: range} next to dependencies {x: npm:pkg@range}: two keys, neither
				// overrides the other
				r.TwinAlias, r.Opt = true, true
			}
		},
		// package.json keys are unique: one version cannot declare two dependencies under one alias, nor an alias
		// that spells the name of another package it depends on
		valid: func(u *Universe) bool {
			for _, v := range u.Vers {
				n := 0
				keys := map[string]bool{}
				for _, r := range v.Reqs {
					k := r.Pkg
					if r.Alias != "" {
						n++
						k = r.Alias
						if r.Alias == v.Pkg {
							// a package that installs something else under its own name: the nested folder shadows
							// the package itself and installation recurses without end (npm has no loop breaking
							// for it either); outside the domain, recorded in DESIGN 9.2
							return false
						}
					}
					if keys[k] {
						return false
					}
					keys[k] = true
					if r.TwinAlias {
						n++
						if r.Alias != "" || keys["x"] || v.Pkg == "x" {
							return false
						}
						keys["x"] = true
					}
				}
				if n > 1 {
					return false
				}
			}
			return true
		},
		// tag-latest-1: a dist-tag whose name merely begins with "latest" (it is no "latest" for a requirement)
		verDecor: []string{"blocked", "tag-latest-1"},
		applyVer: func(u *Universe, vi int, d string) {
			switch d {
			case "blocked":
				u.Vers[vi].Blocked = true
			case "tag-latest-1":
				if u.Vers[vi].Tags == "" {
					u.Vers[vi].Tags = "latest-1"
				} else {
					u.Vers[vi].Tags = "latest-1," + u.Vers[vi].Tags
				}
			}
		},
		pkgDecor: []string{"latest-lowest"},
		applyPkg: func(u *Universe, pkg string, d string) {
			first := true
			for i := range u.Vers {
				if u.Vers[i].Pkg == pkg {
					if first {
						u.Vers[i].Tags = "latest"
						first = false
					} else {
						u.Vers[i].Tags = ""
					}
				}
			}
		},
	}
}

// npmZeroDef is a second, small npm alphabet: zero-major versions (where ^ and ~ mean something else) and two
// spellings of one precedence (1.0.0, 1.0.0+b).
func npmZeroDef() sysDef {
	d := npmDef()
	d.vers = []Ver{
		{Pkg: "r", Ver: "1.0.0", Tags: "latest"},
		{Pkg: "a", Ver: "1.0.0"}, {Pkg: "a", Ver: "1.0.0+b"},
		{Pkg: "c", Ver: "0.0.3"}, {Pkg: "c", Ver: "0.0.4"}, {Pkg: "c", Ver: "0.1.0", Tags: "latest"},
	}
	d.targets = []string{"a", "c"}
	d.reqs = NPMZeroReqs
	d.decor = []string{"opt", "dev", "twin-alias", "twin-alias-opt"}
	return d
}

// npmAliasDef is a four-package alphabet for aliases that spell a real package name: m reuses the root's alias c
// (which installs x), a conflict on d nests d@2 under m, and d@2 needs the real c.
func npmAliasDef() sysDef {
	d := npmDef()
	d.vers = []Ver{
		{Pkg: "r", Ver: "1.0.0", Tags: "latest"},
		{Pkg: "m", Ver: "1.0.0", Tags: "latest"},
		{Pkg: "x", Ver: "1.0.0", Tags: "latest"},
		{Pkg: "d", Ver: "1.0.0"}, {Pkg: "d", Ver: "2.0.0", Tags: "latest"},
		{Pkg: "c", Ver: "1.0.0"}, {Pkg: "c", Ver: "2.0.0", Tags: "latest"},
	}
	d.targets = []string{"m", "x", "d", "c"}
	d.reqs = []string{"^1.0.0", "^2.0.0", "*", "1.0.0"}
	d.decor = []string{"opt", "alias-c"}
	return d
}

// NPMSpaces returns the npm families of DESIGN §6.6(a): the empty base, a diamond-with-conflict template that
// forces nested installs, and the zero-major / twin-spelling template.
func NPMSpaces() []*Space {
	al := npmAliasDef()
	ai := func(p, v string) int { return verIndex(al.vers, p, v) }
	aliasT := []tmplReq{
		{ai("r", "1.0.0"), Req{Pkg: "m", Ver: "^1.0.0"}},
		{ai("r", "1.0.0"), Req{Pkg: "x", Ver: "^1.0.0", Alias: "c"}},
		{ai("r", "1.0.0"), Req{Pkg: "d", Ver: "1.0.0"}},
		{ai("m", "1.0.0"), Req{Pkg: "x", Ver: "^1.0.0", Alias: "c"}},
		{ai("m", "1.0.0"), Req{Pkg: "d", Ver: "^2.0.0"}},
		{ai("d", "2.0.0"), Req{Pkg: "c", Ver: "^2.0.0"}},
	}
	z := npmZeroDef()
	zi := func(p, v string) int { return verIndex(z.vers, p, v) }
	zero := []tmplReq{
		{zi("r", "1.0.0"), Req{Pkg: "a", Ver: "^1.0.0"}},
		{zi("r", "1.0.0"), Req{Pkg: "c", Ver: "^0.0.3"}},
		{zi("a", "1.0.0"), Req{Pkg: "c", Ver: "~0.0.3"}},
		{zi("a", "1.0.0+b"), Req{Pkg: "c", Ver: "^0.0"}},
	}
	d := npmDef()
	vi := func(p, v string) int { return verIndex(d.vers, p, v) }
	diamond := []tmplReq{
		{vi("r", "1.0.0"), Req{Pkg: "a", Ver: "^1.0.0"}},
		{vi("r", "1.0.0"), Req{Pkg: "b", Ver: "^1.0.0"}},
		{vi("a", "1.1.0"), Req{Pkg: "c", Ver: "^1.0.0"}},
		{vi("b", "1.0.0"), Req{Pkg: "c", Ver: "^2.0.0"}},
		{vi("c", "2.0.0"), Req{Pkg: "a", Ver: "^2.0.0"}},
	}
	return []*Space{newSpace(d, "empty", nil), newSpace(d, "diamond", diamond), newSpace(z, "zero", zero), newSpace(al, "alias-name", aliasT)}
}

// ---------------- Maven ----------------

var MavenReqs = []string{"1", "2", "[1,2]", "[2,)", "[3]", "(,1]"}

// MavenHardSat: hard requirement -> satisfying versions of {1,2,3}; soft requirements are absent.
var MavenHardSat = map[string]map[string]bool{
	"[1,2]": {"1": true, "2": true},
	"[2,)":  {"2": true, "3": true},
	"[3]":   {"3": true},
	"(,1]":  {"1": true},
}

// MavenDecor lists the single-slot decorations of a requirement.
var MavenDecor = []string{"scope:test", "scope:provided", "scope:runtime", "optional", "excl:g:a", "excl:g:b", "excl:g:c", "excl:g:*", "excl:*:c", "excl:*:*", "classifier:x", "type:war", "type:pom"}

func mavenDef() sysDef {
	d := sysDef{name: "Maven", targets: []string{"g:a", "g:b", "g:c"}, reqs: MavenReqs, decor: MavenDecor, mgmt: []string{"1", "2", "3"}}
	d.vers = append(d.vers, Ver{Pkg: "g:r", Ver: "1"})
	for _, t := range d.targets {
		for _, v := range []string{"1", "2", "3"} {
			d.vers = append(d.vers, Ver{Pkg: t, Ver: v})
		}
	}
	d.apply = func(r *Req, dc string) {
		switch {
		case dc == "scope:test":
			r.Test = true
		case dc == "optional":
			r.Opt = true
		case strings.HasPrefix(dc, "scope:"):
			r.Scope = dc[6:]
		case strings.HasPrefix(dc, "excl:"):
			r.Excl = dc[5:]
		case dc == "classifier:x":
			r.Class = "x"
		case strings.HasPrefix(dc, "type:"):
			r.AType = dc[5:]
		}
	}
	return d
}

// MavenSpaces returns the Maven families of DESIGN §6.6(b): the empty base and
// a chain template on which exclusions, scopes and ranges act transitively.
func MavenSpaces() []*Space {
	d := mavenDef()
	vi := func(p, v string) int { return verIndex(d.vers, p, v) }
	chain := []tmplReq{
		{vi("g:r", "1"), Req{Pkg: "g:a", Ver: "1"}},
		{vi("g:a", "1"), Req{Pkg: "g:b", Ver: "1"}},
		{vi("g:b", "1"), Req{Pkg: "g:c", Ver: "1"}},
		{vi("g:a", "2"), Req{Pkg: "g:b", Ver: "1"}},
		{vi("g:c", "1"), Req{Pkg: "g:a", Ver: "2"}},
	}
	// tree: r -> a; a@1 -> b, c; b@1 -> c; c@1 -> a 2 (a parent with two children, one of which is also reached
	// through the other): the shape on which exclusions inherited along one path must not leak to another
	tree := []tmplReq{
		{vi("g:r", "1"), Req{Pkg: "g:a", Ver: "1"}},
		{vi("g:a", "1"), Req{Pkg: "g:b", Ver: "1"}},
		{vi("g:a", "1"), Req{Pkg: "g:c", Ver: "1"}},
		{vi("g:b", "1"), Req{Pkg: "g:c", Ver: "1"}},
		{vi("g:c", "1"), Req{Pkg: "g:a", Ver: "2"}},
		{vi("g:a", "2"), Req{Pkg: "g:b", Ver: "2"}},
	}
	// nested exclusions: r -> a [excl g:c]; a@1 -> b [excl g:a]; b@1 -> c; c@2 -> b [excl g:a]: the exclusion text
	// "g:a" occurs below an ancestor that excludes g:c and, from another root, below none - a resolver that lets
	// what it learnt under one ancestry leak into the other loses the edge b -> c.
	nested := []tmplReq{
		{vi("g:r", "1"), Req{Pkg: "g:a", Ver: "1", Excl: "g:c"}},
		{vi("g:a", "1"), Req{Pkg: "g:b", Ver: "1", Excl: "g:a"}},
		{vi("g:b", "1"), Req{Pkg: "g:c", Ver: "1"}},
		{vi("g:c", "2"), Req{Pkg: "g:b", Ver: "1", Excl: "g:a"}},
	}
	// excluded declaration nearer than the live one: r -> a [excl g:c], a@1 -> c 2 (excluded), r -> b, b@1 -> c 1:
	// the excluded declaration must not take part in choosing c's version
	exclVer := []tmplReq{
		{vi("g:r", "1"), Req{Pkg: "g:a", Ver: "1", Excl: "g:c"}},
		{vi("g:a", "1"), Req{Pkg: "g:c", Ver: "2"}},
		{vi("g:r", "1"), Req{Pkg: "g:b", Ver: "1"}},
		{vi("g:b", "1"), Req{Pkg: "g:a", Ver: "1"}},
		{vi("g:b", "1"), Req{Pkg: "g:c", Ver: "1"}},
	}
	// classified sibling: the plain g:b is mediated to the root's soft 1; a classified g:b sits at 3; a range on the
	// plain g:b arrives later, excludes 1 and has 3 as its best match - the version key g:b@3 is then already in the
	// graph, but for another artifact (the classified one): the plain artifact still has to be reconciled with 1
	sibling := []tmplReq{
		{vi("g:r", "1"), Req{Pkg: "g:b", Ver: "1"}},
		{vi("g:r", "1"), Req{Pkg: "g:a", Ver: "1"}},
		{vi("g:a", "1"), Req{Pkg: "g:b", Ver: "3", Class: "x"}},
		{vi("g:a", "1"), Req{Pkg: "g:c", Ver: "1"}},
		{vi("g:c", "1"), Req{Pkg: "g:b", Ver: "[2,)"}},
	}
	return []*Space{newSpace(d, "empty", nil), newSpace(d, "chain", chain), newSpace(d, "tree", tree), newSpace(d, "nested-excl", nested), newSpace(d, "excl-version", exclVer), newSpace(d, "classified-sibling", sibling)}
}

// ---------------- PyPI ----------------

var PyPIReqs = []string{"==1.0", ">=1.0", "<2.0", "!=1.0", "~=1.0", ">=2.0rc1", "", ">3.0"}

// PyPISat: specifier -> satisfying versions of {1.0, 2.0, 3.0rc1} as intervals; pip's prerelease rule is applied by the oracle.
var PyPISat = map[string]map[string]bool{
	"==1.0":    {"1.0": true},
	">=1.0":    {"1.0": true, "2.0": true, "3.0rc1": true},
	"<2.0":     {"1.0": true},
	"!=1.0":    {"2.0": true, "3.0rc1": true},
	"~=1.0":    {"1.0": true},
	">=2.0rc1": {"2.0": true, "3.0rc1": true},
	"":         {"1.0": true, "2.0": true, "3.0rc1": true},
	">3.0":     {},
}

// PyPIMarkers: marker decorations with their truth as a function of the requested extras (hand table).
var PyPIMarkers = []struct {
	Text  string
	Truth func(extras map[string]bool) bool
}{
	{`python_version >= "3"`, func(map[string]bool) bool { return true }},
	{`python_version < "3"`, func(map[string]bool) bool { return false }},
	{`extra == "x"`, func(e map[string]bool) bool { return e["x"] }},
	{`os_name == "nt" or sys_platform == "linux"`, func(map[string]bool) bool { return true }},
	{`"x" == extra`, func(e map[string]bool) bool { return e["x"] }},
	{`extra == "y"`, func(e map[string]bool) bool { return e["y"] }},
	{`extra == "x" or python_version >= "3"`, func(map[string]bool) bool { return true }},
}

func pypiDef() sysDef {
	d := sysDef{name: "PyPI", targets: []string{"a", "b", "c", "r"}, reqs: PyPIReqs}
	d.vers = append(d.vers, Ver{Pkg: "r", Ver: "1.0"})
	for _, t := range []string{"a", "b", "c"} {
		for _, v := range []string{"1.0", "2.0", "3.0rc1"} {
			d.vers = append(d.vers, Ver{Pkg: t, Ver: v})
		}
	}
	for _, m := range PyPIMarkers {
		d.decor = append(d.decor, "marker:"+m.Text)
	}
	d.decor = append(d.decor, "extras:x", "extras:y")
	// a distribution does not require itself (other packages may require the root: cycles through the root)
	d.valid = func(u *Universe) bool {
		for _, v := range u.Vers {
			for _, r := range v.Reqs {
				if r.Pkg == v.Pkg {
					return false
				}
			}
		}
		return true
	}
	d.apply = func(r *Req, dc string) {
		if strings.HasPrefix(dc, "marker:") {
			r.Env = dc[7:]
		} else {
			r.Extras = dc[7:]
		}
	}
	return d
}

// PyPISpaces returns the PyPI families of DESIGN §6.6(c): the empty base and a
// conflict template that forces backtracking.
func PyPISpaces() []*Space {
	d := pypiDef()
	vi := func(p, v string) int { return verIndex(d.vers, p, v) }
	conflict := []tmplReq{
		{vi("r", "1.0"), Req{Pkg: "a", Ver: ">=1.0"}},
		{vi("r", "1.0"), Req{Pkg: "b", Ver: ">=1.0"}},
		{vi("a", "2.0"), Req{Pkg: "c", Ver: "==1.0"}},
		{vi("b", "2.0"), Req{Pkg: "c", Ver: "!=1.0"}},
		{vi("b", "1.0"), Req{Pkg: "c", Ver: ">=1.0"}},
		{vi("c", "1.0"), Req{Pkg: "a", Ver: ">=1.0", Env: `extra == "x"`}},
	}
	// extras: c is requested with extra y by the root and with extra x by b@2.0, a candidate that cannot be
	// installed (its requirement on the root has no match); c@2.0 has a requirement guarded by each extra
	extras := []tmplReq{
		{vi("r", "1.0"), Req{Pkg: "b", Ver: ""}},
		{vi("r", "1.0"), Req{Pkg: "c", Ver: "", Extras: "y"}},
		{vi("b", "2.0"), Req{Pkg: "c", Ver: "", Extras: "x"}},
		{vi("b", "2.0"), Req{Pkg: "r", Ver: ">3.0"}}, // listed after c: the candidate fails after its request on c was merged
		{vi("c", "2.0"), Req{Pkg: "a", Ver: ">=1.0", Env: `extra == "x"`}},
		{vi("c", "2.0"), Req{Pkg: "b", Ver: ">=1.0", Env: `extra == "y"`}},
	}
	// cycle through a package that is also resolved as a root, required once by a specifier that names a prerelease
	// and once by one that does not: what a resolver remembers about "a >=2.0rc1" while a@2.0 is the root (only the
	// root version may be chosen) must not be what it answers when b or c is the root (3.0rc1 is admissible too)
	cycle := []tmplReq{
		{vi("a", "2.0"), Req{Pkg: "b", Ver: ""}},
		{vi("a", "2.0"), Req{Pkg: "c", Ver: ""}},
		{vi("b", "2.0"), Req{Pkg: "a", Ver: ">=1.0"}},
		{vi("c", "2.0"), Req{Pkg: "a", Ver: ">=2.0rc1"}},
		{vi("r", "1.0"), Req{Pkg: "b", Ver: ""}},
		{vi("r", "1.0"), Req{Pkg: "c", Ver: ""}},
	}
	// re-pin without backtracking: a is pinned at 2.0 first, then b@2.0's requirement moves it to 1.0; both versions
	// of a state the same requirement on c, so bookkeeping keyed by (requirement, parent package) confuses them
	repin := []tmplReq{
		{vi("r", "1.0"), Req{Pkg: "a", Ver: ""}},
		{vi("r", "1.0"), Req{Pkg: "b", Ver: ""}},
		{vi("a", "2.0"), Req{Pkg: "c", Ver: ">=1.0"}},
		{vi("a", "1.0"), Req{Pkg: "c", Ver: ">=1.0"}},
		{vi("b", "2.0"), Req{Pkg: "a", Ver: "<2.0"}},
	}
	// loop re-pinned behind its entry point: a@2.0 brings in b@2.0, b brings in c@2.0, c's requirement moves b to 1.0
	// (b is now listed after c), b@1.0 moves a to 1.0, and a@1.0 is the only live way into the loop b <-> c, through c:
	// a search for connected versions that starts at c walks into b, comes back to c and must not conclude anything
	// about b from that
	loop := []tmplReq{
		{vi("r", "1.0"), Req{Pkg: "a", Ver: ""}},
		{vi("a", "2.0"), Req{Pkg: "b", Ver: ">=1.0"}},
		{vi("a", "1.0"), Req{Pkg: "c", Ver: ""}},
		{vi("b", "2.0"), Req{Pkg: "c", Ver: ">=1.0"}},
		{vi("b", "1.0"), Req{Pkg: "c", Ver: ">=1.0"}},
		{vi("b", "1.0"), Req{Pkg: "a", Ver: "<2.0"}},
		{vi("c", "2.0"), Req{Pkg: "b", Ver: "<2.0"}},
	}
	// extras across a backtrack: a is requested with extra x; a@2.0 cannot be installed (neither version of b it
	// needs has an installable requirement), so the resolver backtracks, marks a@2.0 incompatible on a's criterion and
	// pins a@1.0, whose requirement on c is guarded by the extra: the rewritten criterion must still carry the extra
	extrasBack := []tmplReq{
		{vi("r", "1.0"), Req{Pkg: "a", Ver: "", Extras: "x"}},
		{vi("a", "2.0"), Req{Pkg: "b", Ver: ">=1.0"}},
		{vi("b", "2.0"), Req{Pkg: "c", Ver: ">3.0"}},
		{vi("b", "1.0"), Req{Pkg: "c", Ver: ">3.0"}},
		{vi("a", "1.0"), Req{Pkg: "c", Ver: ">=1.0", Env: `extra == "x"`}},
	}
	return []*Space{newSpace(d, "empty", nil), newSpace(d, "conflict", conflict), newSpace(d, "extras", extras), newSpace(d, "cycle-pre", cycle), newSpace(d, "repin", repin), newSpace(d, "loop-repin", loop), newSpace(d, "extras-backtrack", extrasBack)}
}

// AllSpaces lists every family used for histories and schedules (C05). The npm alias-name family is left to C06: with
// aliases that spell real package names the npm resolver has non-terminating inputs (DESIGN 9.2), and a history
// check resolves every universe dozens of times.
func AllSpaces() []*Space {
	var out []*Space
	for _, sp := range append(append(NPMSpaces(), MavenSpaces()...), PyPISpaces()...) {
		if sp.Base != "alias-name" {
			out = append(out, sp)
		}
	}
	return out
}

// SortedCopy returns the strings sorted.
func SortedCopy(s []string) []string {
	c := append([]string(nil), s...)
	sort.Strings(c)
	return c
}
