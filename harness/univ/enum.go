package univ

import (
	"context"
	"sort"
)

var ctxBG = context.Background()

// Slot is one place where the base universe can deviate.
type Slot struct {
	Options  int // number of alternatives (each costs one deviation)
	Requires int // index of a slot that must have been picked, or -1
}

// Pick is one applied deviation.
type Pick struct{ Slot, Opt int }

// Enumerate calls f with every set of picks of size <= max (slots strictly
// increasing; a slot with Requires >= 0 only if that slot is picked). f must
// not retain picks.
func Enumerate(slots []Slot, max int, f func(picks []Pick)) {
	picks := make([]Pick, 0, max)
	picked := make([]bool, len(slots))
	var rec func(start int)
	rec = func(start int) {
		f(picks)
		if len(picks) == max {
			return
		}
		for s := start; s < len(slots); s++ {
			if r := slots[s].Requires; r >= 0 && !picked[r] {
				continue
			}
			picked[s] = true
			for o := 0; o < slots[s].Options; o++ {
				picks = append(picks, Pick{s, o})
				rec(s + 1)
				picks = picks[:len(picks)-1]
			}
			picked[s] = false
		}
	}
	rec(0)
}

// Space is a family of universes: a base, a list of slots, and a builder.
type Space struct {
	Name  string
	Slots []Slot
	Root  [2]string // package, version
	// Build returns the universe for the picks, or ok=false if the picks are
	// pointless (e.g. a requirement on a version no path from the root reaches).
	Build func(picks []Pick) (u Universe, ok bool)
	// Roots lists the versions to resolve from (root first).
	Roots [][2]string
}

type dependent struct{ pkg, ver string }

// reachablePkgs computes package-level reachability from the root through requirement picks.
func reachablePkgs(root string, edges [][2]string) map[string]bool {
	r := map[string]bool{root: true}
	for changed := true; changed; {
		changed = false
		for _, e := range edges {
			if r[e[0]] && !r[e[1]] {
				r[e[1]] = true
				changed = true
			}
		}
	}
	return r
}

// ---------------- npm ----------------

// NPMReqs is the requirement alphabet; NPMSat the hand satisfaction table over the version alphabet.
var NPMReqs = []string{"^1.0.0", "^2.0.0", "*", "1.0.0", "latest", ">=1.1.0", ">=2.0.0-rc.0"}

var NPMSat = map[string]map[string]bool{
	"^1.0.0":       {"1.0.0": true, "1.1.0": true},
	"^2.0.0":       {"2.0.0": true},
	"*":            {"1.0.0": true, "1.1.0": true, "2.0.0": true},
	"1.0.0":        {"1.0.0": true},
	">=1.1.0":      {"1.1.0": true, "2.0.0": true},
	">=2.0.0-rc.0": {"2.0.0-rc.1": true, "2.0.0": true},
	"^1.0.0 ":      {},
}

// NPMOrder is the ascending order of the version alphabet.
var NPMOrder = map[string]int{"1.0.0": 1, "1.1.0": 2, "2.0.0-rc.1": 3, "2.0.0": 4}

// NPMSpace builds the npm family of DESIGN §6.6(a).
func NPMSpace() *Space {
	base := []Ver{
		{Pkg: "r", Ver: "1.0.0", Tags: "latest"},
		{Pkg: "a", Ver: "1.0.0"}, {Pkg: "a", Ver: "1.1.0"}, {Pkg: "a", Ver: "2.0.0", Tags: "latest"},
		{Pkg: "b", Ver: "1.0.0"}, {Pkg: "b", Ver: "2.0.0-rc.1"}, {Pkg: "b", Ver: "2.0.0", Tags: "latest"},
		{Pkg: "c", Ver: "1.0.0"}, {Pkg: "c", Ver: "2.0.0", Tags: "latest"},
	}
	targets := []string{"a", "b", "c"}
	sp := &Space{Name: "NPM", Root: [2]string{"r", "1.0.0"}}
	type reqSlot struct {
		dep    int // index into base
		target string
	}
	var reqSlots []reqSlot
	for di := range base {
		for _, t := range targets {
			reqSlots = append(reqSlots, reqSlot{di, t})
			sp.Slots = append(sp.Slots, Slot{Options: len(NPMReqs), Requires: -1})
		}
	}
	nReq := len(reqSlots)
	// decoration per requirement slot: opt, dev, peer, bundle, alias
	kinds := []string{"opt", "dev", "peer", "bundle", "alias"}
	for i := 0; i < nReq; i++ {
		sp.Slots = append(sp.Slots, Slot{Options: len(kinds), Requires: i})
	}
	// per version: blocked (not the root)
	blockBase := len(sp.Slots)
	for range base[1:] {
		sp.Slots = append(sp.Slots, Slot{Options: 1, Requires: -1})
	}
	// per package: latest tag moved to the lowest version
	latestBase := len(sp.Slots)
	for range targets {
		sp.Slots = append(sp.Slots, Slot{Options: 1, Requires: -1})
	}
	sp.Build = func(picks []Pick) (Universe, bool) {
		u := Universe{Sys: "NPM", Vers: make([]Ver, len(base))}
		copy(u.Vers, base)
		reqOf := map[int][2]int{}
		var edges [][2]string
		for _, p := range picks {
			switch {
			case p.Slot < nReq:
				rs := reqSlots[p.Slot]
				u.Vers[rs.dep].Reqs = append(append([]Req(nil), u.Vers[rs.dep].Reqs...), Req{Pkg: rs.target, Ver: NPMReqs[p.Opt]})
				reqOf[p.Slot] = [2]int{rs.dep, len(u.Vers[rs.dep].Reqs) - 1}
				edges = append(edges, [2]string{base[rs.dep].Pkg, rs.target})
			case p.Slot < 2*nReq:
				ri := reqOf[p.Slot-nReq]
				r := &u.Vers[ri[0]].Reqs[ri[1]]
				switch kinds[p.Opt] {
				case "opt":
					r.Opt = true
				case "dev":
					r.Dev = true
				case "peer":
					r.Scope = "peer"
				case "bundle":
					r.Scope = "bundle"
				case "alias":
					r.Alias = "x"
				}
			case p.Slot < latestBase:
				u.Vers[1+p.Slot-blockBase].Blocked = true
			default:
				pkg := targets[p.Slot-latestBase]
				first := true
				for i := range u.Vers {
					if u.Vers[i].Pkg == pkg {
						if first {
							u.Vers[i].Tags = "latest"
							first = false
						} else {
							u.Vers[i].Tags = ""
						}
					}
				}
			}
		}
		reach := reachablePkgs("r", edges)
		for _, p := range picks {
			switch {
			case p.Slot < nReq:
				if !reach[base[reqSlots[p.Slot].dep].Pkg] {
					return u, false
				}
			case p.Slot >= blockBase && p.Slot < latestBase:
				if !reach[base[1+p.Slot-blockBase].Pkg] {
					return u, false
				}
			case p.Slot >= latestBase:
				if !reach[targets[p.Slot-latestBase]] {
					return u, false
				}
			}
		}
		return u, true
	}
	return sp
}

// ---------------- Maven ----------------

var MavenReqs = []string{"1", "2", "[1,2]", "[2,)", "[3]", "(,1]"}

// MavenHardSat: hard requirement -> satisfying versions of {1,2,3}; soft requirements are absent.
var MavenHardSat = map[string]map[string]bool{
	"[1,2]": {"1": true, "2": true},
	"[2,)":  {"2": true, "3": true},
	"[3]":   {"3": true},
	"(,1]":  {"1": true},
}

// MavenDecor lists the single-slot decorations of a requirement.
var MavenDecor = []string{"scope:test", "scope:provided", "scope:runtime", "optional", "excl:g:c", "excl:g:*", "excl:*:c", "excl:*:*", "classifier:x", "type:war", "type:pom"}

func MavenSpace() *Space {
	var base []Ver
	base = append(base, Ver{Pkg: "g:r", Ver: "1"})
	targets := []string{"g:a", "g:b", "g:c"}
	for _, t := range targets {
		for _, v := range []string{"1", "2", "3"} {
			base = append(base, Ver{Pkg: t, Ver: v})
		}
	}
	sp := &Space{Name: "Maven", Root: [2]string{"g:r", "1"}}
	type reqSlot struct {
		dep    int
		target string
	}
	var reqSlots []reqSlot
	for di := range base {
		for _, t := range targets {
			reqSlots = append(reqSlots, reqSlot{di, t})
			sp.Slots = append(sp.Slots, Slot{Options: len(MavenReqs), Requires: -1})
		}
	}
	nReq := len(reqSlots)
	for i := 0; i < nReq; i++ {
		sp.Slots = append(sp.Slots, Slot{Options: len(MavenDecor), Requires: i})
	}
	mgtBase := len(sp.Slots)
	for range targets {
		sp.Slots = append(sp.Slots, Slot{Options: 3, Requires: -1}) // root-managed version 1,2,3
	}
	sp.Build = func(picks []Pick) (Universe, bool) {
		u := Universe{Sys: "Maven", Vers: make([]Ver, len(base))}
		copy(u.Vers, base)
		reqOf := map[int][2]int{}
		var edges [][2]string
		for _, p := range picks {
			switch {
			case p.Slot < nReq:
				rs := reqSlots[p.Slot]
				u.Vers[rs.dep].Reqs = append(append([]Req(nil), u.Vers[rs.dep].Reqs...), Req{Pkg: rs.target, Ver: MavenReqs[p.Opt]})
				reqOf[p.Slot] = [2]int{rs.dep, len(u.Vers[rs.dep].Reqs) - 1}
				edges = append(edges, [2]string{base[rs.dep].Pkg, rs.target})
			case p.Slot < mgtBase:
				ri := reqOf[p.Slot-nReq]
				r := &u.Vers[ri[0]].Reqs[ri[1]]
				d := MavenDecor[p.Opt]
				switch {
				case d == "scope:test":
					r.Test = true
				case d == "optional":
					r.Opt = true
				case len(d) > 6 && d[:6] == "scope:":
					r.Scope = d[6:]
				case len(d) > 5 && d[:5] == "excl:":
					r.Excl = d[5:]
				case d == "classifier:x":
					r.Class = "x"
				case len(d) > 5 && d[:5] == "type:":
					r.AType = d[5:]
				}
			default:
				t := targets[p.Slot-mgtBase]
				u.Vers[0].Reqs = append(append([]Req(nil), u.Vers[0].Reqs...), Req{Pkg: t, Ver: []string{"1", "2", "3"}[p.Opt], Origin: "management"})
			}
		}
		reach := reachablePkgs("g:r", edges)
		for _, p := range picks {
			if p.Slot < nReq && !reach[base[reqSlots[p.Slot].dep].Pkg] {
				return u, false
			}
			if p.Slot >= mgtBase && !reach[targets[p.Slot-mgtBase]] {
				return u, false
			}
		}
		return u, true
	}
	return sp
}

// ---------------- PyPI ----------------

var PyPIReqs = []string{"==1.0", ">=1.0", "<2.0", "!=1.0", "~=1.0", ">=2.0rc1", ""}

// PyPISat: specifier -> satisfying versions among the finals {1.0, 2.0}; the prerelease 3.0rc1 is
// handled by pip's prerelease rule in the oracle (only when the specifier names a prerelease or no final matches).
var PyPISat = map[string]map[string]bool{
	"==1.0":    {"1.0": true},
	">=1.0":    {"1.0": true, "2.0": true, "3.0rc1": true},
	"<2.0":     {"1.0": true},
	"!=1.0":    {"2.0": true, "3.0rc1": true},
	"~=1.0":    {"1.0": true},
	">=2.0rc1": {"2.0": true, "3.0rc1": true},
	"":         {"1.0": true, "2.0": true, "3.0rc1": true},
}

// PyPIMarkers: decoration -> (marker text, truth without extras, truth with extra x)
var PyPIMarkers = []struct {
	Text         string
	Plain, WithX bool
}{
	{`python_version >= "3"`, true, true},
	{`python_version < "3"`, false, false},
	{`extra == "x"`, false, true},
	{`os_name == "nt" or sys_platform == "linux"`, true, true},
}

func PyPISpace() *Space {
	var base []Ver
	base = append(base, Ver{Pkg: "r", Ver: "1.0"})
	targets := []string{"a", "b", "c"}
	for _, t := range targets {
		for _, v := range []string{"1.0", "2.0", "3.0rc1"} {
			base = append(base, Ver{Pkg: t, Ver: v})
		}
	}
	allTargets := []string{"a", "b", "c", "r"}
	sp := &Space{Name: "PyPI", Root: [2]string{"r", "1.0"}}
	type reqSlot struct {
		dep    int
		target string
	}
	var reqSlots []reqSlot
	for di := range base {
		for _, t := range allTargets {
			if base[di].Pkg == "r" && t == "r" {
				continue
			}
			reqSlots = append(reqSlots, reqSlot{di, t})
			sp.Slots = append(sp.Slots, Slot{Options: len(PyPIReqs), Requires: -1})
		}
	}
	nReq := len(reqSlots)
	nDec := len(PyPIMarkers) + 1 // markers + extras request
	for i := 0; i < nReq; i++ {
		sp.Slots = append(sp.Slots, Slot{Options: nDec, Requires: i})
	}
	sp.Build = func(picks []Pick) (Universe, bool) {
		u := Universe{Sys: "PyPI", Vers: make([]Ver, len(base))}
		copy(u.Vers, base)
		reqOf := map[int][2]int{}
		var edges [][2]string
		for _, p := range picks {
			if p.Slot < nReq {
				rs := reqSlots[p.Slot]
				u.Vers[rs.dep].Reqs = append(append([]Req(nil), u.Vers[rs.dep].Reqs...), Req{Pkg: rs.target, Ver: PyPIReqs[p.Opt]})
				reqOf[p.Slot] = [2]int{rs.dep, len(u.Vers[rs.dep].Reqs) - 1}
				edges = append(edges, [2]string{base[rs.dep].Pkg, rs.target})
				continue
			}
			ri := reqOf[p.Slot-nReq]
				r := &u.Vers[ri[0]].Reqs[ri[1]]
			if p.Opt < len(PyPIMarkers) {
				r.Env = PyPIMarkers[p.Opt].Text
			} else {
				r.Extras = "x"
			}
		}
		reach := reachablePkgs("r", edges)
		for _, p := range picks {
			if p.Slot < nReq && !reach[base[reqSlots[p.Slot].dep].Pkg] {
				return u, false
			}
		}
		return u, true
	}
	return sp
}

// SortedCopy returns the strings sorted.
func SortedCopy(s []string) []string {
	c := append([]string(nil), s...)
	sort.Strings(c)
	return c
}
