// Package core holds what every check shares: the run record (counters,
// violations, known findings, evidence file), the parallel-for helper and the
// replay registry.
package core

import (
	"bufio"
	"crypto/sha256"
	"encoding/hex"
	"encoding/json"
	"fmt"
	"os"
	"path/filepath"
	"runtime"
	"sort"
	"strconv"
	"strings"
	"sync"
	"sync/atomic"
	"time"
)

// Root is the /verif directory (overridable for background runs from a snapshot).
var Root = func() string {
	if r := os.Getenv("VERIF_ROOT"); r != "" {
		return r
	}
	return "/verif"
}()

// Repo is the repository whose working tree is explored.
var Repo = func() string {
	if r := os.Getenv("VERIF_REPO"); r != "" {
		return r
	}
	return "/repo"
}()

// ReplayFunc re-executes exactly one case, identified by its canonical
// witness string, outside any explorer. It reports whether the property held
// on that case and a deterministic observation string.
type ReplayFunc func(witness string) (held bool, observation string)

// Finding is one known finding: one root cause with its exact witness set.
type Finding struct {
	Name        string   `json:"finding"`
	Description string   `json:"description"`
	Witnesses   []string `json:"witnesses,omitempty"`
	WitnessFile string   `json:"witness_file,omitempty"`
	set         map[string]bool
	seen        int64
}

type violation struct {
	Witness string
	Detail  string
}

// Run is the record of one check execution.
type Run struct {
	ID    string
	Tier  string
	Seed  int64
	Level string
	start time.Time

	mu        sync.Mutex
	viol      map[string]violation
	violCount int64
	findings  []*Finding
	byWitness map[string]*Finding

	Cov         map[string]any
	Assumptions []string
	samples     []any
	counters    sync.Map // name -> *int64
	outcomes    sync.Map // string -> struct{}
	nOutcomes   int64
	replay      ReplayFunc
	deadline    time.Time
	capped      atomic.Bool
	capNotes    []string
}

var maxStoredViolations = func() int {
	if os.Getenv("VERIF_DUMP_WITNESSES") != "" {
		return 50_000_000
	}
	return 400
}()

// NewRun starts a run. tier is "quick" or "thorough".
func NewRun(id, tier string, replay ReplayFunc) *Run {
	seed, _ := strconv.ParseInt(os.Getenv("VERIF_SEED"), 10, 64)
	r := &Run{ID: id, Tier: tier, Seed: seed, Level: "model_checking", start: time.Now(),
		viol: map[string]violation{}, byWitness: map[string]*Finding{}, Cov: map[string]any{}, replay: replay}
	r.loadFindings()
	return r
}

// SetBudget sets the internal deadline after which explorers stop with
// exhaustive:false (exit status stays 0 when nothing failed).
func (r *Run) SetBudget(d time.Duration) { r.deadline = r.start.Add(d) }

// Deadline returns the internal deadline (zero if none).
func (r *Run) Deadline() time.Time { return r.deadline }

// OutOfTime reports whether the internal deadline has passed; the first call
// that sees it records the cap.
func (r *Run) OutOfTime(what string) bool {
	if r.deadline.IsZero() || time.Now().Before(r.deadline) {
		return false
	}
	if !r.capped.Swap(true) {
		r.mu.Lock()
		r.capNotes = append(r.capNotes, "time budget reached in "+what)
		r.mu.Unlock()
	}
	return true
}

// Cap records that some bound other than time cut the exploration.
func (r *Run) Cap(note string) {
	r.capped.Store(true)
	r.mu.Lock()
	r.capNotes = append(r.capNotes, note)
	r.mu.Unlock()
}

func (r *Run) loadFindings() {
	if os.Getenv("VERIF_IGNORE_KNOWN") != "" {
		return // triage aid: regenerate witness sets from scratch
	}
	path := filepath.Join(Root, "known_findings", r.ID+".jsonl")
	f, err := os.Open(path)
	if err != nil {
		return
	}
	defer f.Close()
	sc := bufio.NewScanner(f)
	sc.Buffer(make([]byte, 1<<20), 1<<28)
	for sc.Scan() {
		line := strings.TrimSpace(sc.Text())
		if line == "" || strings.HasPrefix(line, "#") {
			continue
		}
		var fd Finding
		if err := json.Unmarshal([]byte(line), &fd); err != nil {
			Harness("known_findings/%s.jsonl: %v", r.ID, err)
		}
		fd.set = map[string]bool{}
		for _, w := range fd.Witnesses {
			fd.set[w] = true
		}
		if fd.WitnessFile != "" {
			wf, err := os.Open(filepath.Join(Root, "known_findings", fd.WitnessFile))
			if err != nil {
				Harness("known finding witness file: %v", err)
			}
			ws := bufio.NewScanner(wf)
			ws.Buffer(make([]byte, 1<<20), 1<<26)
			for ws.Scan() {
				if t := ws.Text(); t != "" {
					fd.set[t] = true
				}
			}
			wf.Close()
		}
		p := &fd
		r.findings = append(r.findings, p)
		for w := range fd.set {
			r.byWitness[w] = p
		}
	}
}

// Harness reports a failure of the machinery itself and exits 2. It never
// prints a VIOLATION line.
func Harness(format string, args ...any) {
	fmt.Printf("HARNESS-ERROR "+format+"\n", args...)
	os.Exit(2)
}

// Count adds n to a named counter (thread-safe).
func (r *Run) Count(name string, n int64) {
	p, ok := r.counters.Load(name)
	if !ok {
		p, _ = r.counters.LoadOrStore(name, new(int64))
	}
	atomic.AddInt64(p.(*int64), n)
}

// Counter reads a named counter.
func (r *Run) Counter(name string) int64 {
	p, ok := r.counters.Load(name)
	if !ok {
		return 0
	}
	return atomic.LoadInt64(p.(*int64))
}

// Outcome records one distinct observed outcome (to expose vacuous runs).
func (r *Run) Outcome(o string) {
	if _, loaded := r.outcomes.LoadOrStore(o, struct{}{}); !loaded {
		atomic.AddInt64(&r.nOutcomes, 1)
	}
}

// Sample keeps up to 12 explored cases for the evidence file.
func (r *Run) Sample(s any) {
	r.mu.Lock()
	if len(r.samples) < 12 {
		r.samples = append(r.samples, s)
	}
	r.mu.Unlock()
}

// Fail records that the property failed on the case named by witness.
func (r *Run) Fail(witness, detail string) {
	r.mu.Lock()
	defer r.mu.Unlock()
	if fd := r.byWitness[witness]; fd != nil {
		fd.seen++
		return
	}
	if _, dup := r.viol[witness]; dup {
		return
	}
	r.violCount++
	if len(r.viol) < maxStoredViolations {
		r.viol[witness] = violation{witness, detail}
	}
}

// Violations returns the number of unlisted violations recorded so far.
func (r *Run) Violations() int64 {
	if os.Getenv("VERIF_DUMP_WITNESSES") != "" {
		return 0 // triage mode: never stop early, the complete witness set is wanted
	}
	r.mu.Lock()
	defer r.mu.Unlock()
	return r.violCount
}

// Failed reports whether any unlisted violation was recorded so far.
func (r *Run) Failed() bool {
	r.mu.Lock()
	defer r.mu.Unlock()
	return r.violCount > 0
}

// Finish confirms violations by replay, writes replay files and the evidence
// file, prints the verdict lines and exits.
func (r *Run) Finish() {
	wall := time.Since(r.start).Seconds()
	var ws []string
	for w := range r.viol {
		ws = append(ws, w)
	}
	sort.Slice(ws, func(i, j int) bool {
		if len(ws[i]) != len(ws[j]) {
			return len(ws[i]) < len(ws[j])
		}
		return ws[i] < ws[j]
	})
	if p := os.Getenv("VERIF_DUMP_WITNESSES"); p != "" {
		// triage aid: every unlisted violation witness, one JSON string per line
		f, err := os.Create(p)
		if err != nil {
			Harness("dump: %v", err)
		}
		bw := bufio.NewWriter(f)
		for _, w := range ws {
			b, _ := json.Marshal(map[string]string{"w": w, "d": firstLine(r.viol[w].Detail)})
			bw.Write(b)
			bw.WriteByte('\n')
		}
		bw.Flush()
		f.Close()
	}
	confirmed := 0
	var lines []string
	for i, w := range ws {
		if i >= 40 {
			break
		}
		v := r.viol[w]
		obs0 := ""
		if r.replay != nil {
			for k := 0; k < 5; k++ {
				held, obs := r.replay(w)
				if held {
					Harness("property=%s witness %q failed in the explorer but held on replay %d (%s): nondeterminism not owned by the harness", r.ID, w, k, obs)
				}
				if k == 0 {
					obs0 = obs
				} else if obs != obs0 {
					Harness("property=%s witness %q gave differing observations on replay: %q vs %q", r.ID, w, obs0, obs)
				}
			}
		}
		confirmed++
		sum := sha256.Sum256([]byte(w))
		dir := filepath.Join(Root, "replays", r.ID)
		os.MkdirAll(dir, 0o755)
		path := filepath.Join(dir, hex.EncodeToString(sum[:8])+".json")
		b, _ := json.MarshalIndent(map[string]any{"property": r.ID, "witness": w, "detail": v.Detail, "observation": obs0, "tier": r.Tier}, "", " ")
		os.WriteFile(path, b, 0o644)
		lines = append(lines, fmt.Sprintf("VIOLATION property=%s replay=%s", r.ID, path))
		if i < 10 {
			fmt.Printf("  violation: %s\n    %s\n", w, firstLine(v.Detail))
		}
	}
	for _, fd := range r.findings {
		if fd.seen > 0 {
			fmt.Printf("KNOWN-FINDING: property=%s %s (%d listed witnesses seen this run)\n", r.ID, fd.Description, fd.seen)
		}
	}
	// evidence
	cov := r.Cov
	r.counters.Range(func(k, v any) bool {
		if _, set := cov[k.(string)]; !set {
			cov[k.(string)] = atomic.LoadInt64(v.(*int64))
		}
		return true
	})
	cov["distinct_outcomes"] = atomic.LoadInt64(&r.nOutcomes)
	if len(r.samples) == 0 {
		r.samples = append(r.samples, "no sample recorded")
	}
	cov["samples"] = r.samples
	if r.capped.Load() {
		cov["exhaustive"] = false
		cov["caps_hit"] = r.capNotes
	} else if _, ok := cov["exhaustive"]; !ok {
		cov["exhaustive"] = true
	}
	kf := map[string]int64{}
	for _, fd := range r.findings {
		kf[fd.Name] = fd.seen
	}
	cov["known_finding_witnesses_seen"] = kf
	ev := map[string]any{
		"property_id": r.ID, "tier": r.Tier, "seed": r.Seed, "level": r.Level,
		"coverage": cov, "assumptions": r.Assumptions, "wall_s": wall, "violations": r.violCount,
	}
	if r.Assumptions == nil {
		ev["assumptions"] = []string{}
	}
	b, err := json.MarshalIndent(ev, "", " ")
	if err != nil {
		Harness("evidence: %v", err)
	}
	os.MkdirAll(filepath.Join(Root, "evidence"), 0o755)
	if err := os.WriteFile(filepath.Join(Root, "evidence", r.ID+".json"), append(b, '\n'), 0o644); err != nil {
		Harness("evidence: %v", err)
	}
	for _, l := range lines {
		fmt.Println(l)
	}
	if r.violCount > 0 {
		fmt.Printf("%s %s: %d violation(s) (%d confirmed by 5x replay) in %.1fs\n", r.ID, r.Tier, r.violCount, confirmed, wall)
		os.Exit(1)
	}
	fmt.Printf("%s %s: held on everything explored (%.1fs, exhaustive=%v)\n", r.ID, r.Tier, wall, cov["exhaustive"])
	os.Exit(0)
}

func firstLine(s string) string {
	if i := strings.IndexByte(s, '\n'); i >= 0 {
		s = s[:i]
	}
	if len(s) > 300 {
		s = s[:300] + "…"
	}
	return s
}

// Workers is the number of parallel workers used by ParFor.
var Workers = func() int {
	if s := os.Getenv("VERIF_WORKERS"); s != "" {
		if n, err := strconv.Atoi(s); err == nil && n > 0 {
			return n
		}
	}
	n := runtime.NumCPU()
	if n > 16 {
		n = 16
	}
	return n
}()

// ParFor runs f(i) for i in [0,n) on Workers goroutines; indices are handed out
// in ascending order in small blocks.
func ParFor(n int, f func(i int)) {
	if n <= 0 {
		return
	}
	var next int64
	block := int64(n/(Workers*16) + 1)
	var wg sync.WaitGroup
	for w := 0; w < Workers; w++ {
		wg.Add(1)
		go func() {
			defer wg.Done()
			for {
				lo := atomic.AddInt64(&next, block) - block
				if lo >= int64(n) {
					return
				}
				hi := lo + block
				if hi > int64(n) {
					hi = int64(n)
				}
				for i := lo; i < hi; i++ {
					f(int(i))
				}
			}
		}()
	}
	wg.Wait()
}

// Join builds a canonical witness string from parts; parts must not contain
// the separator U+001F.
func Join(parts ...string) string { return strings.Join(parts, "\x1f") }

// Split is the inverse of Join.
func Split(w string) []string { return strings.Split(w, "\x1f") }

// Sign returns -1, 0 or 1.
func Sign(x int) int {
	switch {
	case x < 0:
		return -1
	case x > 0:
		return 1
	}
	return 0
}
